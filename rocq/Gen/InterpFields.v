(* GENERATED from the repository source by /verif/translator on every check. Do not edit. *)
From Coq Require Import String List.
Import ListNotations.
Open Scope string_scope.

Inductive wkind := Whole | Elem | Sub | Addr | Delete | ClearMap | FillElems | ClearElemMaps.
Record write := mkW { w_field : string; w_kind : wkind; w_rhs : string; w_must : bool }.

Definition struct_fields : list (string * string) := [
  ("output", "io.Writer");
  ("errorOutput", "io.Writer");
  ("scanner", "*bufio.Scanner");
  ("scanners", "map[string]*bufio.Scanner");
  ("stdin", "io.Reader");
  ("filenameIndex", "int");
  ("hadFiles", "bool");
  ("input", "io.Reader");
  ("inputBuffer", "[]byte");
  ("inputStreams", "map[string]inputStream");
  ("outputStreams", "map[string]outputStream");
  ("noExec", "bool");
  ("noFileWrites", "bool");
  ("noFileReads", "bool");
  ("shellCommand", "[]string");
  ("csvOutput", "*bufio.Writer");
  ("noArgVars", "bool");
  ("splitBuffer", "[]byte");
  ("openFile", "OpenFileFunc");
  ("globals", "[]value");
  ("stack", "[]value");
  ("sp", "int");
  ("frame", "[]value");
  ("arrays", "[]map[string]value");
  ("localArrays", "[][]int");
  ("callDepth", "int");
  ("nativeFuncs", "[]nativeFunc");
  ("scalarIndexes", "map[string]int");
  ("arrayIndexes", "map[string]int");
  ("filename", "value");
  ("line", "string");
  ("lineIsTrueStr", "bool");
  ("lineNum", "value");
  ("fileLineNum", "value");
  ("fields", "[]string");
  ("fieldsIsTrueStr", "[]bool");
  ("numFields", "value");
  ("haveFields", "bool");
  ("fieldNames", "[]string");
  ("fieldIndexes", "map[string]int");
  ("reparseCSV", "bool");
  ("argc", "value");
  ("convertFormat", "string");
  ("outputFormat", "string");
  ("fieldSep", "string");
  ("fieldSepRegex", "*regexp.Regexp");
  ("recordSep", "string");
  ("recordSepRegex", "*regexp.Regexp");
  ("recordTerminator", "string");
  ("outputFieldSep", "string");
  ("outputRecordSep", "string");
  ("subscriptSep", "string");
  ("matchLength", "value");
  ("matchStart", "value");
  ("inputMode", "IOMode");
  ("csvInputConfig", "CSVInputConfig");
  ("outputMode", "IOMode");
  ("csvOutputConfig", "CSVOutputConfig");
  ("savedFieldSep", "string");
  ("savedFieldSepRegex", "*regexp.Regexp");
  ("savedRecordSep", "string");
  ("savedInputMode", "IOMode");
  ("savedCSVInputConfig", "CSVInputConfig");
  ("program", "*parser.Program");
  ("functions", "[]compiler.Function");
  ("nums", "[]float64");
  ("strs", "[]string");
  ("regexes", "[]*regexp.Regexp");
  ("checkCtx", "bool");
  ("ctx", "context.Context");
  ("ctxDone", "<-chan struct{}");
  ("ctxOps", "int");
  ("random", "*rand.Rand");
  ("randSeed", "float64");
  ("exitStatus", "int");
  ("regexCache", "map[string]*regexp.Regexp");
  ("formatCache", "map[string]cachedFormat");
  ("csvJoinFieldsBuf", "bytes.Buffer");
  ("chars", "bool");
  ("newlineOutputCRLF", "bool")
].

Definition fn_newInterp : list write := [
  mkW "program" Whole "program" true;
  mkW "functions" Whole "program.Compiled.Functions" true;
  mkW "nums" Whole "program.Compiled.Nums" true;
  mkW "strs" Whole "program.Compiled.Strs" true;
  mkW "regexes" Whole "program.Compiled.Regexes" true;
  mkW "scalarIndexes" Whole "make(map[string]int)" true;
  mkW "arrayIndexes" Whole "make(map[string]int)" true;
  mkW "arrayIndexes" Elem "info.Index" false;
  mkW "scalarIndexes" Elem "info.Index" false;
  mkW "globals" Whole "make([]value, len(p.scalarIndexes))" true;
  mkW "stack" Whole "make([]value, initialStackSize)" true;
  mkW "arrays" Whole "make([]map[string]value, len(p.arrayIndexes), len(p.arrayIndexes)+initialStackSize)" true;
  mkW "arrays" Elem "make(map[string]value)" false;
  mkW "regexCache" Whole "make(map[string]*regexp.Regexp, 10)" true;
  mkW "formatCache" Whole "make(map[string]cachedFormat, 10)" true;
  mkW "randSeed" Whole "1.0" true;
  mkW "random" Whole "rand.New(rand.NewSource(int64(seed)))" true;
  mkW "convertFormat" Whole """%.6g""" true;
  mkW "outputFormat" Whole """%.6g""" true;
  mkW "fieldSep" Whole """ """ true;
  mkW "savedFieldSep" Whole """ """ true;
  mkW "recordSep" Whole """\n""" true;
  mkW "savedRecordSep" Whole """\n""" true;
  mkW "outputFieldSep" Whole """ """ true;
  mkW "outputRecordSep" Whole """\n""" true;
  mkW "subscriptSep" Whole """\x1c""" true;
  mkW "lineNum" Whole "num(0)" true;
  mkW "fileLineNum" Whole "num(0)" true;
  mkW "numFields" Whole "num(0)" true;
  mkW "matchStart" Whole "num(0)" true;
  mkW "matchLength" Whole "num(0)" true;
  mkW "inputStreams" Whole "make(map[string]inputStream)" true;
  mkW "outputStreams" Whole "make(map[string]outputStream)" true;
  mkW "scanners" Whole "make(map[string]*bufio.Scanner)" true
].
Definition calls_newInterp : list string := ["num"].
Definition methods_newInterp : list (string * string) := [].

Definition fn_resetCore : list write := [
  mkW "scanner" Whole "nil" true;
  mkW "scanners" ClearMap "" true;
  mkW "input" Whole "nil" true;
  mkW "inputStreams" ClearMap "" true;
  mkW "outputStreams" ClearMap "" true;
  mkW "sp" Whole "0" true;
  mkW "localArrays" Whole "p.localArrays[:0]" true;
  mkW "callDepth" Whole "0" true;
  mkW "filename" Whole "null()" true;
  mkW "line" Whole """""" true;
  mkW "lineIsTrueStr" Whole "false" true;
  mkW "lineNum" Whole "num(0)" true;
  mkW "fileLineNum" Whole "num(0)" true;
  mkW "fields" Whole "nil" true;
  mkW "fieldsIsTrueStr" Whole "nil" true;
  mkW "numFields" Whole "num(0)" true;
  mkW "haveFields" Whole "false" true;
  mkW "reparseCSV" Whole "false" true;
  mkW "fieldNames" Whole "nil" true;
  mkW "fieldIndexes" Whole "nil" true;
  mkW "matchStart" Whole "num(0)" true;
  mkW "matchLength" Whole "num(0)" true;
  mkW "argc" Whole "num(0)" true;
  mkW "exitStatus" Whole "0" true
].
Definition calls_resetCore : list string := ["null"; "num"].
Definition methods_resetCore : list (string * string) := [].

Definition fn_resetVars : list write := [
  mkW "globals" FillElems "null()" true;
  mkW "arrays" ClearElemMaps "" true;
  mkW "convertFormat" Whole """%.6g""" true;
  mkW "outputFormat" Whole """%.6g""" true;
  mkW "fieldSep" Whole """ """ true;
  mkW "fieldSepRegex" Whole "nil" true;
  mkW "savedFieldSep" Whole """ """ true;
  mkW "savedFieldSepRegex" Whole "nil" true;
  mkW "recordSep" Whole """\n""" true;
  mkW "savedRecordSep" Whole """\n""" true;
  mkW "recordSepRegex" Whole "nil" true;
  mkW "recordTerminator" Whole """""" true;
  mkW "outputFieldSep" Whole """ """ true;
  mkW "outputRecordSep" Whole """\n""" true;
  mkW "subscriptSep" Whole """\x1c""" true
].
Definition calls_resetVars : list string := [].
Definition methods_resetVars : list (string * string) := [].

Definition fn_ResetRand : list write := [
  mkW "randSeed" Whole "1.0" true
].
Definition calls_ResetRand : list string := [].
Definition methods_ResetRand : list (string * string) := [("random", "Seed")].

Definition fn_Execute : list write := [
  mkW "checkCtx" Whole "false" true
].
Definition calls_Execute : list string := ["resetCore"; "setExecuteConfig"; "executeAll"].
Definition methods_Execute : list (string * string) := [].

Definition fn_ExecuteContext : list write := [
  mkW "checkCtx" Whole "ctx != context.Background() && ctx != context.TODO()" true;
  mkW "ctx" Whole "ctx" true;
  mkW "ctxDone" Whole "ctx.Done()" true;
  mkW "ctxOps" Whole "0" true
].
Definition calls_ExecuteContext : list string := ["resetCore"; "setExecuteConfig"; "executeAll"].
Definition methods_ExecuteContext : list (string * string) := [].

Definition fn_setExecuteConfig : list write := [
  mkW "inputMode" Whole "config.InputMode" true;
  mkW "csvInputConfig" Whole "config.CSVInput" true;
  mkW "csvInputConfig" Sub "','" false;
  mkW "csvInputConfig" Sub "'\t'" false;
  mkW "outputMode" Whole "config.OutputMode" true;
  mkW "csvOutputConfig" Whole "config.CSVOutput" true;
  mkW "csvOutputConfig" Sub "','" false;
  mkW "csvOutputConfig" Sub "'\t'" false;
  mkW "openFile" Whole "os.OpenFile" true;
  mkW "openFile" Whole "config.OpenFile" true;
  mkW "argc" Whole "num(float64(len(config.Args) + 1))" true;
  mkW "noArgVars" Whole "config.NoArgVars" true;
  mkW "filenameIndex" Whole "1" true;
  mkW "hadFiles" Whole "false" true;
  mkW "chars" Whole "config.Chars" true;
  mkW "shellCommand" Whole "config.ShellCommand" true;
  mkW "shellCommand" Whole "defaultShellCommand" true;
  mkW "noExec" Whole "config.NoExec" true;
  mkW "noFileWrites" Whole "config.NoFileWrites" true;
  mkW "noFileReads" Whole "config.NoFileReads" true;
  mkW "stdin" Whole "config.Stdin" true;
  mkW "stdin" Whole "os.Stdin" true;
  mkW "output" Whole "config.Output" true;
  mkW "output" Whole "bufio.NewWriterSize(os.Stdout, outputBufSize)" true;
  mkW "errorOutput" Whole "config.Error" true;
  mkW "errorOutput" Whole "os.Stderr" true;
  mkW "newlineOutputCRLF" Whole "(runtime.GOOS == ""windows"")" true;
  mkW "newlineOutputCRLF" Whole "false" true;
  mkW "newlineOutputCRLF" Whole "true" true
].
Definition calls_setExecuteConfig : list string := ["newError"; "setArrayValue"; "str"; "num"; "numStr"; "setVarByName"; "validateCSVInputConfig"; "validateCSVOutputConfig"; "initNativeFuncs"].
Definition methods_setExecuteConfig : list (string * string) := [].

Definition may_setExecuteConfig : list string := ["output"; "errorOutput"; "stdin"; "filenameIndex"; "hadFiles"; "noExec"; "noFileWrites"; "noFileReads"; "shellCommand"; "csvOutput"; "noArgVars"; "openFile"; "globals"; "arrays"; "nativeFuncs"; "filename"; "line"; "lineIsTrueStr"; "lineNum"; "fileLineNum"; "fields"; "fieldsIsTrueStr"; "numFields"; "haveFields"; "argc"; "convertFormat"; "outputFormat"; "fieldSep"; "fieldSepRegex"; "recordSep"; "recordSepRegex"; "recordTerminator"; "outputFieldSep"; "outputRecordSep"; "subscriptSep"; "matchLength"; "matchStart"; "inputMode"; "csvInputConfig"; "outputMode"; "csvOutputConfig"; "csvJoinFieldsBuf"; "chars"; "newlineOutputCRLF"].
Definition may_run : list string := ["scanner"; "scanners"; "filenameIndex"; "hadFiles"; "input"; "inputBuffer"; "inputStreams"; "outputStreams"; "csvOutput"; "splitBuffer"; "globals"; "stack"; "sp"; "frame"; "arrays"; "localArrays"; "callDepth"; "filename"; "line"; "lineIsTrueStr"; "lineNum"; "fileLineNum"; "fields"; "fieldsIsTrueStr"; "numFields"; "haveFields"; "fieldNames"; "fieldIndexes"; "reparseCSV"; "argc"; "convertFormat"; "outputFormat"; "fieldSep"; "fieldSepRegex"; "recordSep"; "recordSepRegex"; "recordTerminator"; "outputFieldSep"; "outputRecordSep"; "subscriptSep"; "matchLength"; "matchStart"; "inputMode"; "csvInputConfig"; "outputMode"; "csvOutputConfig"; "savedFieldSep"; "savedFieldSepRegex"; "savedRecordSep"; "savedInputMode"; "savedCSVInputConfig"; "ctxOps"; "randSeed"; "exitStatus"; "regexCache"; "formatCache"; "csvJoinFieldsBuf"].
Definition may_setVarByName : list string := ["csvOutput"; "globals"; "filename"; "line"; "lineIsTrueStr"; "lineNum"; "fileLineNum"; "fields"; "fieldsIsTrueStr"; "numFields"; "haveFields"; "argc"; "convertFormat"; "outputFormat"; "fieldSep"; "fieldSepRegex"; "recordSep"; "recordSepRegex"; "recordTerminator"; "outputFieldSep"; "outputRecordSep"; "subscriptSep"; "matchLength"; "matchStart"; "inputMode"; "csvInputConfig"; "outputMode"; "csvOutputConfig"; "csvJoinFieldsBuf"].
(* fields mentioned (read or written) by the cache fillers and everything they call *)
Definition refs_parseFmtTypes : list string := ["formatCache"].
Definition refs_compileRegex : list string := ["regexCache"].

Definition writes_elsewhere : list (string * write) := [
  ("callBuiltin", mkW "inputStreams" Delete "" false);
  ("callBuiltin", mkW "scanners" Delete "" false);
  ("callBuiltin", mkW "outputStreams" Delete "" false);
  ("callBuiltin", mkW "matchStart" Whole "num(0)" false);
  ("callBuiltin", mkW "matchLength" Whole "num(-1)" false);
  ("callBuiltin", mkW "matchStart" Whole "num(float64(utf8.RuneCountInString(s[:loc[0]]) + 1))" false);
  ("callBuiltin", mkW "matchLength" Whole "num(float64(utf8.RuneCountInString(s[loc[0]:loc[1]])))" false);
  ("callBuiltin", mkW "matchStart" Whole "num(float64(loc[0] + 1))" false);
  ("callBuiltin", mkW "matchLength" Whole "num(float64(loc[1] - loc[0]))" false);
  ("callBuiltin", mkW "randSeed" Whole "float64(time.Now().Unix())" false);
  ("callBuiltin", mkW "randSeed" Whole "p.peekTop().num()" false);
  ("checkContext", mkW "ctxOps" Whole "++" false);
  ("checkContext", mkW "ctxOps" Whole "0" false);
  ("compileRegex", mkW "regexCache" Elem "re" false);
  ("ensureFields", mkW "haveFields" Whole "true" false);
  ("ensureFields", mkW "fields" Addr "" false);
  ("ensureFields", mkW "fields" Whole "nil" false);
  ("ensureFields", mkW "fields" Whole "splitBlanks(p.line)" false);
  ("ensureFields", mkW "fields" Whole "nil" false);
  ("ensureFields", mkW "fields" Whole "strings.Split(p.line, p.savedFieldSep)" false);
  ("ensureFields", mkW "fields" Whole "p.splitOnFieldSepRegex(p.fields[:0], p.line)" false);
  ("ensureFields", mkW "fields" Whole "fields" false);
  ("ensureFields", mkW "fieldsIsTrueStr" Whole "p.fieldsIsTrueStr[:0]" false);
  ("ensureFields", mkW "fieldsIsTrueStr" Whole "append(p.fieldsIsTrueStr, false)" false);
  ("ensureFields", mkW "numFields" Whole "num(float64(len(p.fields)))" false);
  ("execActions", mkW "reparseCSV" Whole "false" false);
  ("execActions", mkW "scanner" Whole "nil" false);
  ("execActions", mkW "scanner" Whole "nil" false);
  ("execActions", mkW "scanner" Whole "nil" false);
  ("execActions", mkW "scanner" Whole "nil" false);
  ("execute", mkW "stack" Elem "v1" false);
  ("execute", mkW "stack" Elem "v2" false);
  ("execute", mkW "stack" Elem "v0" false);
  ("execute", mkW "stack" Elem "via alias s" false);
  ("execute", mkW "stack" Elem "via alias s" false);
  ("execute", mkW "stack" Elem "via alias s" false);
  ("execute", mkW "globals" Elem "p.pop()" false);
  ("execute", mkW "frame" Elem "p.pop()" false);
  ("execute", mkW "arrays" Elem "v" false);
  ("execute", mkW "arrays" Elem "via alias array" false);
  ("execute", mkW "arrays" Elem "v" false);
  ("execute", mkW "arrays" Elem "via alias array" false);
  ("execute", mkW "arrays" Delete "" false);
  ("execute", mkW "arrays" Delete "" false);
  ("execute", mkW "globals" Elem "num(p.globals[index].num() + float64(amount))" false);
  ("execute", mkW "frame" Elem "num(p.frame[index].num() + float64(amount))" false);
  ("execute", mkW "arrays" Elem "num(array[index].num() + float64(amount))" false);
  ("execute", mkW "arrays" Elem "via alias array" false);
  ("execute", mkW "arrays" Elem "num(array[index].num() + float64(amount))" false);
  ("execute", mkW "arrays" Elem "via alias array" false);
  ("execute", mkW "globals" Elem "v" false);
  ("execute", mkW "frame" Elem "v" false);
  ("execute", mkW "arrays" Elem "v" false);
  ("execute", mkW "arrays" Elem "via alias array" false);
  ("execute", mkW "arrays" Elem "v" false);
  ("execute", mkW "arrays" Elem "via alias array" false);
  ("execute", mkW "exitStatus" Whole "int(p.pop().num())" false);
  ("execute", mkW "globals" Elem "str(index)" false);
  ("execute", mkW "frame" Elem "str(index)" false);
  ("execute", mkW "frame" Whole "p.peekSlice(f.NumScalars)" false);
  ("execute", mkW "arrays" Whole "append(p.arrays, make(map[string]value))" false);
  ("execute", mkW "localArrays" Whole "append(p.localArrays, arrays)" false);
  ("execute", mkW "callDepth" Whole "++" false);
  ("execute", mkW "callDepth" Whole "--" false);
  ("execute", mkW "frame" Whole "oldFrame" false);
  ("execute", mkW "localArrays" Whole "p.localArrays[:len(p.localArrays)-1]" false);
  ("execute", mkW "arrays" Whole "p.arrays[:oldArraysLen]" false);
  ("execute", mkW "globals" Elem "numStr(line)" false);
  ("execute", mkW "frame" Elem "numStr(line)" false);
  ("execute", mkW "arrays" Elem "numStr(line)" false);
  ("execute", mkW "arrays" Elem "via alias array" false);
  ("getFieldByName", mkW "fieldIndexes" Whole "make(map[string]int, len(p.fieldNames))" false);
  ("getFieldByName", mkW "fieldIndexes" Elem "i + 1" false);
  ("getInputScannerFile", mkW "scanners" Elem "scanner" false);
  ("getInputScannerFile", mkW "scanners" Elem "scanner" false);
  ("getInputScannerFile", mkW "inputStreams" Elem "in" false);
  ("getInputScannerPipe", mkW "inputStreams" Elem "in" false);
  ("getInputScannerPipe", mkW "scanners" Elem "scanner" false);
  ("getOutputStream", mkW "outputStreams" Elem "out" false);
  ("getOutputStream", mkW "outputStreams" Elem "out" false);
  ("getline", mkW "fields" Whole "fields" false);
  ("initNativeFuncs", mkW "nativeFuncs" Whole "make([]nativeFunc, len(names))" false);
  ("initNativeFuncs", mkW "nativeFuncs" Elem "nativeFunc{ isVariadic: typ.IsVariadic(), in: in, value: reflect.ValueOf(f), }" false);
  ("joinFields", mkW "csvJoinFieldsBuf" Addr "" false);
  ("newScanner", mkW "fields" Addr "" false);
  ("newScanner", mkW "recordTerminator" Addr "" false);
  ("newScanner", mkW "recordSepRegex" Addr "" false);
  ("newScanner", mkW "recordTerminator" Addr "" false);
  ("nextLine", mkW "input" Whole "p.stdin" false);
  ("nextLine", mkW "filenameIndex" Whole "++" false);
  ("nextLine", mkW "input" Whole "nil" false);
  ("nextLine", mkW "input" Whole "p.stdin" false);
  ("nextLine", mkW "input" Whole "input" false);
  ("nextLine", mkW "inputBuffer" Whole "make([]byte, inputBufSize)" false);
  ("nextLine", mkW "scanner" Whole "p.newScanner(p.input, p.inputBuffer)" false);
  ("nextLine", mkW "recordTerminator" Whole "p.recordSep" false);
  ("nextLine", mkW "scanner" Whole "nil" false);
  ("nextLine", mkW "lineNum" Whole "num(p.lineNum.num() + 1)" false);
  ("nextLine", mkW "fileLineNum" Whole "num(p.fileLineNum.num() + 1)" false);
  ("parseFmtTypes", mkW "formatCache" Elem "cachedFormat{format, types, stars}" false);
  ("peekPeekPop", mkW "sp" Whole "--" false);
  ("peekPop", mkW "sp" Whole "--" false);
  ("pop", mkW "sp" Whole "--" false);
  ("popSlice", mkW "sp" Whole "-= n" false);
  ("popTwo", mkW "sp" Whole "-= 2" false);
  ("push", mkW "stack" Whole "append(p.stack, null())" false);
  ("push", mkW "stack" Elem "v" false);
  ("push", mkW "sp" Whole "sp" false);
  ("pushNulls", mkW "stack" Whole "append(p.stack, null())" false);
  ("pushNulls", mkW "stack" Elem "null()" false);
  ("pushNulls", mkW "sp" Whole "sp" false);
  ("replaceTop", mkW "stack" Elem "v" false);
  ("replaceTwo", mkW "stack" Elem "l" false);
  ("replaceTwo", mkW "stack" Elem "r" false);
  ("setArrayValue", mkW "arrays" Elem "v" false);
  ("setArrayValue", mkW "arrays" Elem "via alias array" false);
  ("setField", mkW "fields" Whole "append(p.fields, """")" false);
  ("setField", mkW "fieldsIsTrueStr" Whole "append(p.fieldsIsTrueStr, true)" false);
  ("setField", mkW "fields" Elem "value" false);
  ("setField", mkW "fieldsIsTrueStr" Elem "true" false);
  ("setField", mkW "numFields" Whole "num(float64(len(p.fields)))" false);
  ("setField", mkW "line" Whole "p.joinFields(p.fields)" false);
  ("setField", mkW "lineIsTrueStr" Whole "true" false);
  ("setFieldNames", mkW "fieldNames" Whole "names" false);
  ("setFieldNames", mkW "fieldIndexes" Whole "nil" false);
  ("setFieldNames", mkW "arrays" Delete "" false);
  ("setFieldNames", mkW "arrays" Elem "str(name)" false);
  ("setFieldNames", mkW "arrays" Elem "via alias fieldsArray" false);
  ("setFile", mkW "filename" Whole "numStr(filename)" false);
  ("setFile", mkW "fileLineNum" Whole "num(0)" false);
  ("setFile", mkW "hadFiles" Whole "true" false);
  ("setLine", mkW "line" Whole "line" false);
  ("setLine", mkW "lineIsTrueStr" Whole "isTrueStr" false);
  ("setLine", mkW "haveFields" Whole "false" false);
  ("setLine", mkW "reparseCSV" Whole "true" false);
  ("setLine", mkW "savedFieldSep" Whole "p.fieldSep" false);
  ("setLine", mkW "savedFieldSepRegex" Whole "p.fieldSepRegex" false);
  ("setLine", mkW "savedRecordSep" Whole "p.recordSep" false);
  ("setLine", mkW "savedInputMode" Whole "p.inputMode" false);
  ("setLine", mkW "savedCSVInputConfig" Whole "p.csvInputConfig" false);
  ("setSpecial", mkW "numFields" Whole "v" false);
  ("setSpecial", mkW "fields" Whole "p.fields[:numFields]" false);
  ("setSpecial", mkW "fieldsIsTrueStr" Whole "p.fieldsIsTrueStr[:numFields]" false);
  ("setSpecial", mkW "fields" Whole "append(p.fields, """")" false);
  ("setSpecial", mkW "fieldsIsTrueStr" Whole "append(p.fieldsIsTrueStr, false)" false);
  ("setSpecial", mkW "line" Whole "p.joinFields(p.fields)" false);
  ("setSpecial", mkW "lineIsTrueStr" Whole "true" false);
  ("setSpecial", mkW "lineNum" Whole "v" false);
  ("setSpecial", mkW "matchLength" Whole "v" false);
  ("setSpecial", mkW "matchStart" Whole "v" false);
  ("setSpecial", mkW "fileLineNum" Whole "v" false);
  ("setSpecial", mkW "argc" Whole "v" false);
  ("setSpecial", mkW "convertFormat" Whole "p.toString(v)" false);
  ("setSpecial", mkW "filename" Whole "v" false);
  ("setSpecial", mkW "fieldSepRegex" Whole "re" false);
  ("setSpecial", mkW "fieldSep" Whole "fieldSep" false);
  ("setSpecial", mkW "outputFormat" Whole "p.toString(v)" false);
  ("setSpecial", mkW "outputFieldSep" Whole "p.toString(v)" false);
  ("setSpecial", mkW "outputRecordSep" Whole "p.toString(v)" false);
  ("setSpecial", mkW "recordSepRegex" Whole "regexp.MustCompile(sep)" false);
  ("setSpecial", mkW "recordSepRegex" Whole "regexp.MustCompile(sep)" false);
  ("setSpecial", mkW "recordSepRegex" Whole "re" false);
  ("setSpecial", mkW "recordSep" Whole "recordSep" false);
  ("setSpecial", mkW "recordTerminator" Whole "p.toString(v)" false);
  ("setSpecial", mkW "subscriptSep" Whole "p.toString(v)" false);
  ("setSpecial", mkW "inputMode" Whole "parseInputMode(p.toString(v)) #0" false);
  ("setSpecial", mkW "csvInputConfig" Whole "parseInputMode(p.toString(v)) #1" false);
  ("setSpecial", mkW "outputMode" Whole "parseOutputMode(p.toString(v)) #0" false);
  ("setSpecial", mkW "csvOutputConfig" Whole "parseOutputMode(p.toString(v)) #1" false);
  ("setVarByName", mkW "globals" Elem "numStr(value)" false);
  ("split", mkW "splitBuffer" Whole "make([]byte, inputBufSize)" false);
  ("split", mkW "arrays" Elem "array" false);
  ("writeCSV", mkW "csvOutput" Whole "bufio.NewWriterSize(output, 4096)" false)
].

Definition other_writers : list string := [].
Definition nil_tested : list string := ["output"; "errorOutput"; "scanner"; "stdin"; "inputBuffer"; "csvOutput"; "splitBuffer"; "nativeFuncs"; "fieldNames"; "fieldIndexes"].
Definition field_methods : list (string * string * string) := [
  ("callBuiltin", "random", "Float64");
  ("callBuiltin", "random", "Seed");
  ("callBuiltin", "ctx", "Err");
  ("checkContextNow", "ctx", "Err");
  ("joinFields", "csvJoinFieldsBuf", "Reset");
  ("joinFields", "csvJoinFieldsBuf", "Bytes");
  ("nextLine", "argc", "num");
  ("nextLine", "scanner", "Scan");
  ("nextLine", "scanner", "Err");
  ("nextLine", "lineNum", "num");
  ("nextLine", "fileLineNum", "num");
  ("nextLine", "scanner", "Text");
  ("setSpecial", "recordSepRegex", "Longest");
  ("splitOnFieldSepRegex", "savedFieldSepRegex", "FindAllStringIndex");
  ("writeCSV", "csvOutput", "Reset")
].
Definition run_functions : list string := ["array"; "arrayGet"; "arrayIndex"; "augAssignOp"; "boolean"; "callBuiltin"; "callNative"; "checkContext"; "checkContextNow"; "childWriter"; "closeAll"; "compileRegex"; "ensureFields"; "execActions"; "execShell"; "execute"; "executeAll"; "floatToInt"; "flushAll"; "flushOutputAndError"; "flushStream"; "flushWriter"; "fromNative"; "getField"; "getFieldByName"; "getInputScannerFile"; "getInputScannerPipe"; "getOutputStream"; "getSpecial"; "getline"; "inputModeString"; "isDigit"; "joinFields"; "lenNewline"; "localArray"; "newError"; "newInCmdStream"; "newInFileStream"; "newOutCmdStream"; "newOutFileStream"; "newOutNullStream"; "newScanner"; "nextLine"; "null"; "num"; "numStr"; "outputModeString"; "parseFmtTypes"; "parseInputMode"; "parseOutputMode"; "peekPeekPop"; "peekPop"; "peekSlice"; "peekTop"; "peekTwo"; "pop"; "popSlice"; "popTwo"; "printArgs"; "printErrorf"; "printLine"; "push"; "pushNulls"; "replaceTop"; "replaceTwo"; "setField"; "setFieldNames"; "setFile"; "setLine"; "setSpecial"; "setVarByName"; "split"; "splitBlanks"; "splitOnFieldSepRegex"; "sprintf"; "str"; "sub"; "substrChars"; "substrLengthChars"; "toNative"; "toString"; "toUint64"; "validCSVSeparator"; "validateCSVInputConfig"; "validateCSVOutputConfig"; "waitExitCode"; "writeCSV"; "writeOutput"].
Definition setExecuteConfig_functions : list string := ["array"; "arrayIndex"; "checkNativeFunc"; "ensureFields"; "initNativeFuncs"; "joinFields"; "lenNewline"; "newError"; "num"; "numStr"; "parseInputMode"; "parseOutputMode"; "setArrayValue"; "setExecuteConfig"; "setSpecial"; "setVarByName"; "splitBlanks"; "splitOnFieldSepRegex"; "str"; "toString"; "validCSVSeparator"; "validNativeType"; "validateCSVInputConfig"; "validateCSVOutputConfig"; "writeCSV"; "writeOutput"].
