(* GENERATED from the repository source by /verif/translator on every check. Do not edit. *)
From Coq Require Import List String ZArith.
Import ListNotations.
Open Scope string_scope.
Definition dispatch_header : string := "for ip := 0; ip < len(code); ".
Definition dispatch_head : list string :=
  ["op := code[ip]";
   "ip++";
   "if p.checkCtx { err := p.checkContext() if err != nil { return err } }"].
Definition record_loop_head : list string :=
  ["if p.checkCtx { err := p.checkContext() if err != nil { return err } }"].
Definition check_context_body : list string :=
  ["p.ctxOps++";
   "if p.ctxOps < checkContextOps { return nil }";
   "p.ctxOps = 0";
   "return p.checkContextNow()"].
Definition check_now_body : list string :=
  ["select { case <-p.ctxDone: return p.ctx.Err() default: return nil }"].
Definition execute_context : list string :=
  ["p.interp.resetCore()";
   "p.interp.checkCtx = ctx != context.Background() && ctx != context.TODO()";
   "p.interp.ctx = ctx";
   "p.interp.ctxDone = ctx.Done()";
   "p.interp.ctxOps = 0"].
Definition execute_plain : list string :=
  ["p.interp.resetCore()";
   "p.interp.checkCtx = false"].
Definition loops : list (string * string * Z) :=
  [("Interpreter.Array", "for k, v := range array", 0%Z);
   ("blankLineSplitter.scan", "for i < len(data) && (data[i] == '\n' || data[i] == '\r')", 0%Z);
   ("blankLineSplitter.scan", "for ; i < len(data); i++", 0%Z);
   ("blankLineSplitter.scan", "for i < len(data) && (data[i] == '\n' || data[i] == '\r')", 0%Z);
   ("blankLineSplitter.scan", "for i < len(data) && (data[i] == '\n' || data[i] == '\r')", 0%Z);
   ("checkNativeFunc", "for i := 0; i < typ.NumIn(); i++", 0%Z);
   ("csvSplitter.scan", "for", 0%Z);
   ("csvSplitter.scan", "for", 0%Z);
   ("csvSplitter.scan", "for", 0%Z);
   ("csvSplitter.scan", "for i, idx := range s.fieldIndexes", 0%Z);
   ("firstError", "for _, err := range errs", 0%Z);
   ("interp.callNative", "for i, a := range args", 0%Z);
   ("interp.callNative", "for i := len(args); i < minIn; i++", 0%Z);
   ("interp.closeAll", "for _, r := range p.inputStreams", 0%Z);
   ("interp.closeAll", "for _, w := range p.outputStreams", 0%Z);
   ("interp.ensureFields", "for _, field := range p.fields", 0%Z);
   ("interp.ensureFields", "for _, line := range lines", 0%Z);
   ("interp.ensureFields", "for range p.fields", 0%Z);
   ("interp.execActions", "for", 4%Z);
   ("interp.execActions", "for i, action := range actions", 4%Z);
   ("interp.execute", "for ip := 0; ip < len(code); ", 2%Z);
   ("interp.execute", "for k := range array", 0%Z);
   ("interp.execute", "for _, v := range values", 0%Z);
   ("interp.execute", "for _, v := range values", 0%Z);
   ("interp.execute", "for index := range array", 1%Z);
   ("interp.execute", "for j := 0; j < numArrayArgs; j++", 0%Z);
   ("interp.execute", "for j := numArrayArgs; j < f.NumArrays; j++", 0%Z);
   ("interp.flushAll", "for name, writer := range p.outputStreams", 0%Z);
   ("interp.getFieldByName", "for i, n := range p.fieldNames", 0%Z);
   ("interp.initNativeFuncs", "for name, f := range funcs", 0%Z);
   ("interp.initNativeFuncs", "for name := range funcs", 0%Z);
   ("interp.initNativeFuncs", "for i, name := range names", 0%Z);
   ("interp.initNativeFuncs", "for j := 0; j < len(in); j++", 0%Z);
   ("interp.nextLine", "for", 0%Z);
   ("interp.parseFmtTypes", "for i := 0; i < len(s); i++", 0%Z);
   ("interp.parseFmtTypes", "for i < len(s) && strings.IndexByte("" -+#0"", s[i]) >= 0", 0%Z);
   ("interp.parseFmtTypes", "for i < len(s) && isDigit(s[i])", 0%Z);
   ("interp.parseFmtTypes", "for i < len(s) && isDigit(s[i])", 0%Z);
   ("interp.printArgs", "for _, arg := range args", 0%Z);
   ("interp.printArgs", "for i, arg := range args", 0%Z);
   ("interp.pushNulls", "for p.sp+num-1 >= len(p.stack)", 0%Z);
   ("interp.pushNulls", "for i := 0; i < num; i++", 0%Z);
   ("interp.resetCore", "for k := range p.scanners", 0%Z);
   ("interp.resetCore", "for k := range p.inputStreams", 0%Z);
   ("interp.resetCore", "for k := range p.outputStreams", 0%Z);
   ("interp.resetVars", "for i := range p.globals", 0%Z);
   ("interp.resetVars", "for _, array := range p.arrays", 0%Z);
   ("interp.resetVars", "for k := range array", 0%Z);
   ("interp.setExecuteConfig", "for i, arg := range config.Args", 0%Z);
   ("interp.setExecuteConfig", "for i := 0; i < len(config.Vars); i += 2", 0%Z);
   ("interp.setExecuteConfig", "for i := 0; i < len(config.Environ); i += 2", 0%Z);
   ("interp.setExecuteConfig", "for _, kv := range os.Environ()", 0%Z);
   ("interp.setField", "for i := len(p.fields); i < index; i++", 0%Z);
   ("interp.setFieldNames", "for k := range fieldsArray", 0%Z);
   ("interp.setFieldNames", "for i, name := range names", 0%Z);
   ("interp.setSpecial", "for i := len(p.fields); i < numFields; i++", 0%Z);
   ("interp.split", "for i, part := range parts", 0%Z);
   ("interp.splitOnFieldSepRegex", "for _, match := range indices", 0%Z);
   ("interp.sprintf", "for i, t := range types", 0%Z);
   ("interp.sub", "for i := 0; i < len(repl); i++", 0%Z);
   ("newInterp", "for i := 0; i < len(p.arrayIndexes); i++", 0%Z);
   ("parseFloatPrefix", "for i < len(s) && asciiSpace[s[i]] != 0", 0%Z);
   ("parseFloatPrefix", "for i < len(s) && isDigit(s[i])", 0%Z);
   ("parseFloatPrefix", "for i < len(s) && isDigit(s[i])", 0%Z);
   ("parseFloatPrefix", "for i < len(s) && isDigit(s[i])", 0%Z);
   ("parseHexFloatPrefix", "for i < len(s) && isHexDigit(s[i])", 0%Z);
   ("parseHexFloatPrefix", "for i < len(s) && isHexDigit(s[i])", 0%Z);
   ("parseHexFloatPrefix", "for i < len(s) && isDigit(s[i])", 0%Z);
   ("parseInputMode", "for _, field := range fields[1:]", 0%Z);
   ("parseOutputMode", "for _, field := range fields[1:]", 0%Z);
   ("splitBlanks", "for i := 0; i < len(s); i++", 0%Z);
   ("splitBlanks", "for i := 0; i < len(s); i++", 0%Z);
   ("substrChars", "for start = range s", 0%Z);
   ("substrLengthChars", "for start = range s", 0%Z);
   ("substrLengthChars", "for end = range s[start:]", 0%Z);
   ("trimASCIISpace", "for start < len(s) && asciiSpace[s[start]] != 0", 0%Z);
   ("trimASCIISpace", "for end > start && asciiSpace[s[end-1]] != 0", 0%Z)].
Definition execute_sites : list (string * string) :=
  [("interp.executeAll", "p.program.Compiled.Begin");
   ("interp.executeAll", "p.program.Compiled.End");
   ("interp.execActions", "action.Pattern[0]");
   ("interp.execActions", "action.Pattern[0]");
   ("interp.execActions", "action.Pattern[1]");
   ("interp.execActions", "action.Body");
   ("interp.execute", "loopCode");
   ("interp.execute", "f.Body")].
Definition poll_sites : list (string * string) :=
  [("interp.executeAll", "checkContextNow");
   ("interp.executeAll", "checkContextNow");
   ("interp.executeAll", "checkContextNow");
   ("interp.execActions", "checkContext");
   ("interp.checkContext", "checkContextNow");
   ("interp.execute", "checkContext")].
Definition ctxops_writes : list (string * string) :=
  [("Interpreter.ExecuteContext", "p.interp.ctxOps = 0");
   ("interp.checkContext", "p.ctxOps++");
   ("interp.checkContext", "p.ctxOps = 0")].
Definition ctx_err_sites : list (string * string) :=
  [("interp.checkContextNow", "");
   ("interp.callBuiltin", "err != nil");
   ("interp.callBuiltin", "err != nil && p.checkCtx && p.ctx.Err() != nil")].
Definition exec_shell_body : list string :=
  ["executable := p.shellCommand[0]";
   "args := p.shellCommand[1:]";
   "args = append(args, code)";
   "var cmd *exec.Cmd";
   "if p.checkCtx { cmd = exec.CommandContext(p.ctx, executable, args...) } else { cmd = exec.Command(executable, args...) }";
   "cmd.WaitDelay = 250 * time.Millisecond";
   "return cmd"].
Definition exec_shell_returns : list (string * string) :=
  [("cmd", "yes")].
Definition exec_shell_makes : list (string * string) :=
  [("CommandContext", "cmd");
   ("Command", "cmd")].
Definition waitdelay_writes : list (string * string) :=
  [("interp.execShell", "cmd.WaitDelay = 250 * time.Millisecond")].
Definition command_sites : list (string * string * string) :=
  [("interp.execShell", "CommandContext", "p.checkCtx");
   ("interp.execShell", "Command", "!(p.checkCtx)")].
