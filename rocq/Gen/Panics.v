(* GENERATED from the repository source by /verif/translator on every check. Do not edit. *)
From Coq Require Import List String ZArith.
Import ListNotations.
Open Scope string_scope.

Inductive site_kind : Type := SKPanic | SKMustCompile | SKAssert | SKRecover | SKIndex.
(* what is raised / compiled / asserted, as far as syntax tells *)
Inductive site_arg : Type :=
| AKPosError      (* p.errorf(..) / ast.PosErrorf(..) / &ast.PositionError{..} *)
| AKCompileError  (* &compileError{..} *)
| AKRepanic       (* panic(r) of an identifier *)
| AKMessage       (* fmt.Sprintf(..) or a string literal *)
| AKLiteral       (* MustCompile of a string literal *)
| AKLenChecked    (* index: len(<same expression>) is consulted earlier in the same function *)
| AKOther.
Record site : Type := { s_pkg : string; s_file : string; s_func : string; s_kind : site_kind; s_ord : nat; s_arg : site_arg; s_text : string }.

(* ast.V_LAST: special variable indexes are 1..numSpecials *)
Definition numSpecials : Z := 17%Z.

Definition sites : list site :=
  [ {| s_pkg := "lexer"; s_file := "lexer.go"; s_func := "*Lexer.scanRegex"; s_kind := SKPanic; s_ord := 0; s_arg := AKMessage; s_text := "panic(""ScanRegex should only be called after DIV or DIV_ASSIGN token"")" |};
    {| s_pkg := "internal/ast"; s_file := "ast.go"; s_func := "*InExpr.String"; s_kind := SKIndex; s_ord := 0; s_arg := AKLenChecked; s_text := "e.Index[0]" |};
    {| s_pkg := "internal/ast"; s_file := "ast.go"; s_func := "formatString"; s_kind := SKIndex; s_ord := 0; s_arg := AKLenChecked; s_text := "s[0]" |};
    {| s_pkg := "internal/ast"; s_file := "walk.go"; s_func := "Walk"; s_kind := SKPanic; s_ord := 0; s_arg := AKMessage; s_text := "panic(fmt.Sprintf(""ast.Walk: unexpected node type %T"", n))" |};
    {| s_pkg := "parser"; s_file := "parser.go"; s_func := "ParseProgram"; s_kind := SKRecover; s_ord := 0; s_arg := AKOther; s_text := "recover()" |};
    {| s_pkg := "parser"; s_file := "parser.go"; s_func := "ParseProgram"; s_kind := SKAssert; s_ord := 0; s_arg := AKOther; s_text := "r.(*ast.PositionError)" |};
    {| s_pkg := "parser"; s_file := "parser.go"; s_func := "*parser.program"; s_kind := SKPanic; s_ord := 0; s_arg := AKPosError; s_text := "panic(p.errorf(""expected ; or newline between items""))" |};
    {| s_pkg := "parser"; s_file := "parser.go"; s_func := "*parser.simpleStmt"; s_kind := SKIndex; s_ord := 0; s_arg := AKLenChecked; s_text := "args[0]" |};
    {| s_pkg := "parser"; s_file := "parser.go"; s_func := "*parser.simpleStmt"; s_kind := SKPanic; s_ord := 0; s_arg := AKPosError; s_text := "panic(p.errorf(""expected printf args, got none""))" |};
    {| s_pkg := "parser"; s_file := "parser.go"; s_func := "*parser.simpleStmt"; s_kind := SKPanic; s_ord := 1; s_arg := AKPosError; s_text := "panic(p.errorf(""expected expression instead of ]""))" |};
    {| s_pkg := "parser"; s_file := "parser.go"; s_func := "*parser.simpleStmt"; s_kind := SKPanic; s_ord := 2; s_arg := AKPosError; s_text := "panic(p.errorf(""expected print/printf, delete, or expression""))" |};
    {| s_pkg := "parser"; s_file := "parser.go"; s_func := "*parser.stmt"; s_kind := SKPanic; s_ord := 0; s_arg := AKPosError; s_text := "panic(p.errorf(""expected 'for (var in array) ...'""))" |};
    {| s_pkg := "parser"; s_file := "parser.go"; s_func := "*parser.stmt"; s_kind := SKPanic; s_ord := 1; s_arg := AKPosError; s_text := "panic(p.errorf(""expected 'for (var in array) ...'""))" |};
    {| s_pkg := "parser"; s_file := "parser.go"; s_func := "*parser.stmt"; s_kind := SKPanic; s_ord := 2; s_arg := AKPosError; s_text := "panic(p.errorf(""expected 'for (var in array) ...'""))" |};
    {| s_pkg := "parser"; s_file := "parser.go"; s_func := "*parser.stmt"; s_kind := SKIndex; s_ord := 0; s_arg := AKLenChecked; s_text := "inExpr.Index[0]" |};
    {| s_pkg := "parser"; s_file := "parser.go"; s_func := "*parser.stmt"; s_kind := SKPanic; s_ord := 3; s_arg := AKPosError; s_text := "panic(p.errorf(""expected 'for (var in array) ...'""))" |};
    {| s_pkg := "parser"; s_file := "parser.go"; s_func := "*parser.stmt"; s_kind := SKPanic; s_ord := 4; s_arg := AKPosError; s_text := "panic(p.errorf(""break must be inside a loop body""))" |};
    {| s_pkg := "parser"; s_file := "parser.go"; s_func := "*parser.stmt"; s_kind := SKPanic; s_ord := 5; s_arg := AKPosError; s_text := "panic(p.errorf(""continue must be inside a loop body""))" |};
    {| s_pkg := "parser"; s_file := "parser.go"; s_func := "*parser.stmt"; s_kind := SKPanic; s_ord := 6; s_arg := AKPosError; s_text := "panic(p.errorf(""next can't be inside BEGIN or END""))" |};
    {| s_pkg := "parser"; s_file := "parser.go"; s_func := "*parser.stmt"; s_kind := SKPanic; s_ord := 7; s_arg := AKPosError; s_text := "panic(p.errorf(""nextfile can't be inside BEGIN or END""))" |};
    {| s_pkg := "parser"; s_file := "parser.go"; s_func := "*parser.stmt"; s_kind := SKPanic; s_ord := 8; s_arg := AKPosError; s_text := "panic(p.errorf(""return must be inside a function""))" |};
    {| s_pkg := "parser"; s_file := "parser.go"; s_func := "*parser.stmt"; s_kind := SKPanic; s_ord := 9; s_arg := AKPosError; s_text := "panic(p.errorf(""expected ; or newline between statements""))" |};
    {| s_pkg := "parser"; s_file := "parser.go"; s_func := "*parser.function"; s_kind := SKPanic; s_ord := 0; s_arg := AKPosError; s_text := "panic(p.errorf(""can't nest functions""))" |};
    {| s_pkg := "parser"; s_file := "parser.go"; s_func := "*parser.function"; s_kind := SKPanic; s_ord := 1; s_arg := AKPosError; s_text := "panic(p.errorf(""can't use function name as parameter name""))" |};
    {| s_pkg := "parser"; s_file := "parser.go"; s_func := "*parser.function"; s_kind := SKPanic; s_ord := 2; s_arg := AKPosError; s_text := "panic(p.errorf(""duplicate parameter name %q"", param))" |};
    {| s_pkg := "parser"; s_file := "parser.go"; s_func := "*parser._assign"; s_kind := SKPanic; s_ord := 0; s_arg := AKPosError; s_text := "panic(p.errorf(""assigning @ expression not supported""))" |};
    {| s_pkg := "parser"; s_file := "parser.go"; s_func := "*parser._assign"; s_kind := SKPanic; s_ord := 1; s_arg := AKPosError; s_text := "panic(ast.PosErrorf(leftPos, ""expected lvalue before %s"", op))" |};
    {| s_pkg := "parser"; s_file := "parser.go"; s_func := "*parser.primary"; s_kind := SKPanic; s_ord := 0; s_arg := AKPosError; s_text := "panic(ast.PosErrorf(exprPos, ""expected lvalue after %s"", op))" |};
    {| s_pkg := "parser"; s_file := "parser.go"; s_func := "*parser.primary"; s_kind := SKPanic; s_ord := 1; s_arg := AKPosError; s_text := "panic(p.errorf(""expected expression instead of ]""))" |};
    {| s_pkg := "parser"; s_file := "parser.go"; s_func := "*parser.primary"; s_kind := SKPanic; s_ord := 2; s_arg := AKPosError; s_text := "panic(p.errorf(""expected expression, not %s"", p.tok))" |};
    {| s_pkg := "parser"; s_file := "parser.go"; s_func := "*parser.primary"; s_kind := SKIndex; s_ord := 0; s_arg := AKLenChecked; s_text := "exprs[0]" |};
    {| s_pkg := "parser"; s_file := "parser.go"; s_func := "*parser.primary"; s_kind := SKPanic; s_ord := 3; s_arg := AKPosError; s_text := "panic(ast.PosErrorf(inPos, ""3rd arg to sub/gsub must be lvalue""))" |};
    {| s_pkg := "parser"; s_file := "parser.go"; s_func := "*parser.primary"; s_kind := SKPanic; s_ord := 4; s_arg := AKPosError; s_text := "panic(p.errorf(""expected expression instead of %s"", p.tok))" |};
    {| s_pkg := "parser"; s_file := "parser.go"; s_func := "*parser.optionalLValue"; s_kind := SKPanic; s_ord := 0; s_arg := AKPosError; s_text := "panic(p.errorf(""expected expression instead of ]""))" |};
    {| s_pkg := "parser"; s_file := "parser.go"; s_func := "*parser.next"; s_kind := SKPanic; s_ord := 0; s_arg := AKPosError; s_text := "panic(p.errorf(""%s"", p.val))" |};
    {| s_pkg := "parser"; s_file := "parser.go"; s_func := "*parser.nextRegex"; s_kind := SKPanic; s_ord := 0; s_arg := AKPosError; s_text := "panic(p.errorf(""%s"", p.val))" |};
    {| s_pkg := "parser"; s_file := "parser.go"; s_func := "*parser.nextRegex"; s_kind := SKPanic; s_ord := 1; s_arg := AKPosError; s_text := "panic(p.errorf(""%v"", err))" |};
    {| s_pkg := "parser"; s_file := "parser.go"; s_func := "*parser.expect"; s_kind := SKPanic; s_ord := 0; s_arg := AKPosError; s_text := "panic(p.errorf(""expected %s instead of %s"", tok, p.tok))" |};
    {| s_pkg := "parser"; s_file := "parser.go"; s_func := "*parser.checkMultiExprs"; s_kind := SKPanic; s_ord := 0; s_arg := AKPosError; s_text := "panic(ast.PosErrorf(min, ""unexpected comma-separated expression""))" |};
    {| s_pkg := "internal/resolver"; s_file := "resolve.go"; s_func := "Resolve"; s_kind := SKPanic; s_ord := 0; s_arg := AKPosError; s_text := "panic(ast.PosErrorf(lexer.Position{Line: 1, Column: 1}, ""too many iter" |};
    {| s_pkg := "internal/resolver"; s_file := "resolve.go"; s_func := "*resolver.recordVar"; s_kind := SKPanic; s_ord := 0; s_arg := AKPosError; s_text := "panic(ast.PosErrorf(pos, ""global var %q can't also be a function"", var" |};
    {| s_pkg := "internal/resolver"; s_file := "resolve.go"; s_func := "*resolver.recordVar"; s_kind := SKPanic; s_ord := 1; s_arg := AKPosError; s_text := "panic(ast.PosErrorf(pos, ""can't use %s %q as %s"", info.Type, varName, " |};
    {| s_pkg := "internal/resolver"; s_file := "resolve.go"; s_func := "*callGraphVisitor.Visit"; s_kind := SKPanic; s_ord := 0; s_arg := AKPosError; s_text := "panic(ast.PosErrorf(n.Pos, ""function %q already defined"", n.Name))" |};
    {| s_pkg := "internal/resolver"; s_file := "resolve.go"; s_func := "*mainVisitor.Visit"; s_kind := SKIndex; s_ord := 0; s_arg := AKOther; s_text := "n.Args[0]" |};
    {| s_pkg := "internal/resolver"; s_file := "resolve.go"; s_func := "*mainVisitor.Visit"; s_kind := SKAssert; s_ord := 0; s_arg := AKOther; s_text := "n.Args[1].(*ast.VarExpr)" |};
    {| s_pkg := "internal/resolver"; s_file := "resolve.go"; s_func := "*mainVisitor.Visit"; s_kind := SKIndex; s_ord := 1; s_arg := AKOther; s_text := "n.Args[1]" |};
    {| s_pkg := "internal/resolver"; s_file := "resolve.go"; s_func := "*mainVisitor.Visit"; s_kind := SKIndex; s_ord := 2; s_arg := AKLenChecked; s_text := "n.Args[0]" |};
    {| s_pkg := "internal/resolver"; s_file := "resolve.go"; s_func := "*mainVisitor.Visit"; s_kind := SKPanic; s_ord := 0; s_arg := AKPosError; s_text := "panic(ast.PosErrorf(n.Pos, ""can't call local variable %q as function""," |};
    {| s_pkg := "internal/resolver"; s_file := "resolve.go"; s_func := "*mainVisitor.Visit"; s_kind := SKPanic; s_ord := 1; s_arg := AKPosError; s_text := "panic(ast.PosErrorf(n.Pos, ""undefined function %q"", n.Name))" |};
    {| s_pkg := "internal/resolver"; s_file := "resolve.go"; s_func := "*mainVisitor.Visit"; s_kind := SKPanic; s_ord := 2; s_arg := AKPosError; s_text := "panic(ast.PosErrorf(n.Pos, ""native function %q is not a function"", n.N" |};
    {| s_pkg := "internal/resolver"; s_file := "resolve.go"; s_func := "*mainVisitor.Visit"; s_kind := SKPanic; s_ord := 3; s_arg := AKPosError; s_text := "panic(ast.PosErrorf(n.Pos, ""%q called with more arguments than declare" |};
    {| s_pkg := "internal/resolver"; s_file := "resolve.go"; s_func := "*mainVisitor.Visit"; s_kind := SKPanic; s_ord := 4; s_arg := AKPosError; s_text := "panic(ast.PosErrorf(n.Pos, ""can't pass scalar %s as array param"", arg)" |};
    {| s_pkg := "internal/resolver"; s_file := "resolve.go"; s_func := "*mainVisitor.Visit"; s_kind := SKPanic; s_ord := 5; s_arg := AKPosError; s_text := "panic(ast.PosErrorf(varExpr.Pos, ""can't pass %s %q as %s param"", varIn" |};
    {| s_pkg := "internal/compiler"; s_file := "compiler.go"; s_func := "Compile"; s_kind := SKRecover; s_ord := 0; s_arg := AKOther; s_text := "recover()" |};
    {| s_pkg := "internal/compiler"; s_file := "compiler.go"; s_func := "Compile"; s_kind := SKAssert; s_ord := 0; s_arg := AKOther; s_text := "r.(*compileError)" |};
    {| s_pkg := "internal/compiler"; s_file := "compiler.go"; s_func := "Compile"; s_kind := SKIndex; s_ord := 0; s_arg := AKLenChecked; s_text := "action.Pattern[0]" |};
    {| s_pkg := "internal/compiler"; s_file := "compiler.go"; s_func := "Compile"; s_kind := SKIndex; s_ord := 1; s_arg := AKLenChecked; s_text := "action.Pattern[0]" |};
    {| s_pkg := "internal/compiler"; s_file := "compiler.go"; s_func := "Compile"; s_kind := SKIndex; s_ord := 2; s_arg := AKLenChecked; s_text := "action.Pattern[1]" |};
    {| s_pkg := "internal/compiler"; s_file := "compiler.go"; s_func := "*compiler.scalarInfo"; s_kind := SKPanic; s_ord := 0; s_arg := AKMessage; s_text := "panic(fmt.Sprintf(""internal error: found %s when expecting scalar %q""," |};
    {| s_pkg := "internal/compiler"; s_file := "compiler.go"; s_func := "*compiler.arrayInfo"; s_kind := SKPanic; s_ord := 0; s_arg := AKMessage; s_text := "panic(fmt.Sprintf(""internal error: found %s when expecting array %q"", " |};
    {| s_pkg := "internal/compiler"; s_file := "compiler.go"; s_func := "*compiler.stmt"; s_kind := SKPanic; s_ord := 0; s_arg := AKMessage; s_text := "panic(fmt.Sprintf(""unexpected stmt type: %T"", stmt))" |};
    {| s_pkg := "internal/compiler"; s_file := "compiler.go"; s_func := "opcodeInt"; s_kind := SKPanic; s_ord := 0; s_arg := AKCompileError; s_text := "panic(&compileError{message: fmt.Sprintf(""program too large (constant " |};
    {| s_pkg := "internal/compiler"; s_file := "compiler.go"; s_func := "*compiler.patchBreaks"; s_kind := SKIndex; s_ord := 0; s_arg := AKOther; s_text := "c.breaks[len(c.breaks)-1]" |};
    {| s_pkg := "internal/compiler"; s_file := "compiler.go"; s_func := "*compiler.patchContinues"; s_kind := SKIndex; s_ord := 0; s_arg := AKOther; s_text := "c.continues[len(c.continues)-1]" |};
    {| s_pkg := "internal/compiler"; s_file := "compiler.go"; s_func := "*compiler.expr"; s_kind := SKIndex; s_ord := 0; s_arg := AKOther; s_text := "e.Args[0]" |};
    {| s_pkg := "internal/compiler"; s_file := "compiler.go"; s_func := "*compiler.expr"; s_kind := SKAssert; s_ord := 0; s_arg := AKOther; s_text := "e.Args[1].(*ast.VarExpr)" |};
    {| s_pkg := "internal/compiler"; s_file := "compiler.go"; s_func := "*compiler.expr"; s_kind := SKIndex; s_ord := 1; s_arg := AKOther; s_text := "e.Args[1]" |};
    {| s_pkg := "internal/compiler"; s_file := "compiler.go"; s_func := "*compiler.expr"; s_kind := SKIndex; s_ord := 2; s_arg := AKLenChecked; s_text := "e.Args[2]" |};
    {| s_pkg := "internal/compiler"; s_file := "compiler.go"; s_func := "*compiler.expr"; s_kind := SKIndex; s_ord := 3; s_arg := AKLenChecked; s_text := "e.Args[2]" |};
    {| s_pkg := "internal/compiler"; s_file := "compiler.go"; s_func := "*compiler.expr"; s_kind := SKIndex; s_ord := 4; s_arg := AKLenChecked; s_text := "e.Args[2]" |};
    {| s_pkg := "internal/compiler"; s_file := "compiler.go"; s_func := "*compiler.expr"; s_kind := SKIndex; s_ord := 5; s_arg := AKLenChecked; s_text := "e.Args[0]" |};
    {| s_pkg := "internal/compiler"; s_file := "compiler.go"; s_func := "*compiler.expr"; s_kind := SKIndex; s_ord := 6; s_arg := AKLenChecked; s_text := "e.Args[1]" |};
    {| s_pkg := "internal/compiler"; s_file := "compiler.go"; s_func := "*compiler.expr"; s_kind := SKIndex; s_ord := 7; s_arg := AKLenChecked; s_text := "e.Args[0]" |};
    {| s_pkg := "internal/compiler"; s_file := "compiler.go"; s_func := "*compiler.expr"; s_kind := SKIndex; s_ord := 8; s_arg := AKLenChecked; s_text := "e.Args[1]" |};
    {| s_pkg := "internal/compiler"; s_file := "compiler.go"; s_func := "*compiler.expr"; s_kind := SKIndex; s_ord := 9; s_arg := AKLenChecked; s_text := "e.Args[0]" |};
    {| s_pkg := "internal/compiler"; s_file := "compiler.go"; s_func := "*compiler.expr"; s_kind := SKIndex; s_ord := 10; s_arg := AKLenChecked; s_text := "e.Args[0]" |};
    {| s_pkg := "internal/compiler"; s_file := "compiler.go"; s_func := "*compiler.expr"; s_kind := SKPanic; s_ord := 0; s_arg := AKMessage; s_text := "panic(fmt.Sprintf(""unexpected function: %s"", e.Func))" |};
    {| s_pkg := "internal/compiler"; s_file := "compiler.go"; s_func := "*compiler.expr"; s_kind := SKAssert; s_ord := 1; s_arg := AKOther; s_text := "arg.(*ast.VarExpr)" |};
    {| s_pkg := "internal/compiler"; s_file := "compiler.go"; s_func := "*compiler.expr"; s_kind := SKPanic; s_ord := 1; s_arg := AKMessage; s_text := "panic(fmt.Sprintf(""unexpected expr type: %T"", expr))" |};
    {| s_pkg := "internal/compiler"; s_file := "compiler.go"; s_func := "*compiler.concatOp"; s_kind := SKIndex; s_ord := 0; s_arg := AKLenChecked; s_text := "values[1]" |};
    {| s_pkg := "internal/compiler"; s_file := "compiler.go"; s_func := "*compiler.concatOp"; s_kind := SKIndex; s_ord := 1; s_arg := AKLenChecked; s_text := "values[0]" |};
    {| s_pkg := "internal/compiler"; s_file := "compiler.go"; s_func := "*compiler.regexIndex"; s_kind := SKMustCompile; s_ord := 0; s_arg := AKOther; s_text := "regexp.MustCompile(AddRegexFlags(r))" |};
    {| s_pkg := "internal/compiler"; s_file := "compiler.go"; s_func := "*compiler.binaryOp"; s_kind := SKPanic; s_ord := 0; s_arg := AKMessage; s_text := "panic(fmt.Sprintf(""unexpected binary operation: %s"", op))" |};
    {| s_pkg := "internal/compiler"; s_file := "disassembler.go"; s_func := "*Program.Disassemble"; s_kind := SKIndex; s_ord := 0; s_arg := AKLenChecked; s_text := "action.Pattern[0]" |};
    {| s_pkg := "internal/compiler"; s_file := "disassembler.go"; s_func := "*Program.Disassemble"; s_kind := SKIndex; s_ord := 1; s_arg := AKLenChecked; s_text := "action.Pattern[0]" |};
    {| s_pkg := "internal/compiler"; s_file := "disassembler.go"; s_func := "*Program.Disassemble"; s_kind := SKIndex; s_ord := 2; s_arg := AKLenChecked; s_text := "action.Pattern[1]" |};
    {| s_pkg := "internal/compiler"; s_file := "disassembler.go"; s_func := "*disassembler.localName"; s_kind := SKPanic; s_ord := 0; s_arg := AKMessage; s_text := "panic(fmt.Sprintf(""unexpected local variable index %d"", index))" |};
    {| s_pkg := "internal/compiler"; s_file := "disassembler.go"; s_func := "*disassembler.localArrayName"; s_kind := SKPanic; s_ord := 0; s_arg := AKMessage; s_text := "panic(fmt.Sprintf(""unexpected local array index %d"", index))" |};
    {| s_pkg := "interp"; s_file := "functions.go"; s_func := "*interp.callNative"; s_kind := SKIndex; s_ord := 0; s_arg := AKLenChecked; s_text := "f.in[len(f.in)-1]" |};
    {| s_pkg := "interp"; s_file := "functions.go"; s_func := "*interp.callNative"; s_kind := SKIndex; s_ord := 1; s_arg := AKLenChecked; s_text := "outs[0]" |};
    {| s_pkg := "interp"; s_file := "functions.go"; s_func := "*interp.callNative"; s_kind := SKIndex; s_ord := 2; s_arg := AKLenChecked; s_text := "outs[1]" |};
    {| s_pkg := "interp"; s_file := "functions.go"; s_func := "*interp.callNative"; s_kind := SKAssert; s_ord := 0; s_arg := AKOther; s_text := "outs[1].Interface().(error)" |};
    {| s_pkg := "interp"; s_file := "functions.go"; s_func := "*interp.callNative"; s_kind := SKIndex; s_ord := 3; s_arg := AKLenChecked; s_text := "outs[1]" |};
    {| s_pkg := "interp"; s_file := "functions.go"; s_func := "*interp.callNative"; s_kind := SKIndex; s_ord := 4; s_arg := AKLenChecked; s_text := "outs[0]" |};
    {| s_pkg := "interp"; s_file := "functions.go"; s_func := "*interp.callNative"; s_kind := SKPanic; s_ord := 0; s_arg := AKMessage; s_text := "panic(fmt.Sprintf(""unexpected number of return values: %d"", len(outs))" |};
    {| s_pkg := "interp"; s_file := "functions.go"; s_func := "*interp.toNative"; s_kind := SKPanic; s_ord := 0; s_arg := AKMessage; s_text := "panic(fmt.Sprintf(""unexpected argument slice: %s"", typ.Elem().Kind()))" |};
    {| s_pkg := "interp"; s_file := "functions.go"; s_func := "*interp.toNative"; s_kind := SKPanic; s_ord := 1; s_arg := AKMessage; s_text := "panic(fmt.Sprintf(""unexpected argument type: %s"", typ.Kind()))" |};
    {| s_pkg := "interp"; s_file := "functions.go"; s_func := "fromNative"; s_kind := SKPanic; s_ord := 0; s_arg := AKMessage; s_text := "panic(fmt.Sprintf(""unexpected return slice: %s"", v.Type().Elem().Kind(" |};
    {| s_pkg := "interp"; s_file := "functions.go"; s_func := "fromNative"; s_kind := SKPanic; s_ord := 1; s_arg := AKMessage; s_text := "panic(fmt.Sprintf(""unexpected return type: %s"", v.Kind()))" |};
    {| s_pkg := "interp"; s_file := "functions.go"; s_func := "*interp.sprintf"; s_kind := SKIndex; s_ord := 0; s_arg := AKOther; s_text := "stars[0]" |};
    {| s_pkg := "interp"; s_file := "functions.go"; s_func := "*interp.sprintf"; s_kind := SKIndex; s_ord := 1; s_arg := AKLenChecked; s_text := "s[0]" |};
    {| s_pkg := "interp"; s_file := "interp.go"; s_func := "<package-level var>"; s_kind := SKMustCompile; s_ord := 0; s_arg := AKLiteral; s_text := "regexp.MustCompile(`(?s)^([_a-zA-Z][_a-zA-Z0-9]*)=(.*)`)" |};
    {| s_pkg := "interp"; s_file := "interp.go"; s_func := "*interp.execActions"; s_kind := SKIndex; s_ord := 0; s_arg := AKLenChecked; s_text := "action.Pattern[0]" |};
    {| s_pkg := "interp"; s_file := "interp.go"; s_func := "*interp.execActions"; s_kind := SKIndex; s_ord := 1; s_arg := AKLenChecked; s_text := "action.Pattern[0]" |};
    {| s_pkg := "interp"; s_file := "interp.go"; s_func := "*interp.execActions"; s_kind := SKIndex; s_ord := 2; s_arg := AKLenChecked; s_text := "action.Pattern[1]" |};
    {| s_pkg := "interp"; s_file := "interp.go"; s_func := "*interp.getSpecial"; s_kind := SKPanic; s_ord := 0; s_arg := AKMessage; s_text := "panic(fmt.Sprintf(""unexpected special variable index: %d"", index))" |};
    {| s_pkg := "interp"; s_file := "interp.go"; s_func := "*interp.setSpecial"; s_kind := SKMustCompile; s_ord := 0; s_arg := AKOther; s_text := "regexp.MustCompile(sep)" |};
    {| s_pkg := "interp"; s_file := "interp.go"; s_func := "*interp.setSpecial"; s_kind := SKMustCompile; s_ord := 1; s_arg := AKOther; s_text := "regexp.MustCompile(sep)" |};
    {| s_pkg := "interp"; s_file := "interp.go"; s_func := "*interp.setSpecial"; s_kind := SKPanic; s_ord := 0; s_arg := AKMessage; s_text := "panic(fmt.Sprintf(""unexpected special variable index: %d"", index))" |};
    {| s_pkg := "interp"; s_file := "interp.go"; s_func := "*interp.arrayIndex"; s_kind := SKIndex; s_ord := 0; s_arg := AKOther; s_text := "p.localArrays[len(p.localArrays)-1]" |};
    {| s_pkg := "interp"; s_file := "interp.go"; s_func := "*interp.localArray"; s_kind := SKIndex; s_ord := 0; s_arg := AKOther; s_text := "p.localArrays[len(p.localArrays)-1]" |};
    {| s_pkg := "interp"; s_file := "interp.go"; s_func := "parseInputMode"; s_kind := SKIndex; s_ord := 0; s_arg := AKLenChecked; s_text := "fields[0]" |};
    {| s_pkg := "interp"; s_file := "interp.go"; s_func := "parseInputMode"; s_kind := SKIndex; s_ord := 1; s_arg := AKLenChecked; s_text := "fields[0]" |};
    {| s_pkg := "interp"; s_file := "interp.go"; s_func := "parseOutputMode"; s_kind := SKIndex; s_ord := 0; s_arg := AKLenChecked; s_text := "fields[0]" |};
    {| s_pkg := "interp"; s_file := "interp.go"; s_func := "parseOutputMode"; s_kind := SKIndex; s_ord := 1; s_arg := AKLenChecked; s_text := "fields[0]" |};
    {| s_pkg := "interp"; s_file := "io.go"; s_func := "*interp.writeCSV"; s_kind := SKIndex; s_ord := 0; s_arg := AKLenChecked; s_text := "fields[0]" |};
    {| s_pkg := "interp"; s_file := "io.go"; s_func := "*interp.getOutputStream"; s_kind := SKPanic; s_ord := 0; s_arg := AKMessage; s_text := "panic(fmt.Sprintf(""unexpected redirect type %s"", redirect))" |};
    {| s_pkg := "interp"; s_file := "io.go"; s_func := "*interp.execShell"; s_kind := SKIndex; s_ord := 0; s_arg := AKOther; s_text := "p.shellCommand[0]" |};
    {| s_pkg := "interp"; s_file := "io.go"; s_func := "*interp.newScanner"; s_kind := SKIndex; s_ord := 0; s_arg := AKLenChecked; s_text := "p.recordSep[0]" |};
    {| s_pkg := "interp"; s_file := "io.go"; s_func := "dropCR"; s_kind := SKIndex; s_ord := 0; s_arg := AKLenChecked; s_text := "data[len(data)-1]" |};
    {| s_pkg := "interp"; s_file := "io.go"; s_func := "dropLF"; s_kind := SKIndex; s_ord := 0; s_arg := AKLenChecked; s_text := "data[len(data)-1]" |};
    {| s_pkg := "interp"; s_file := "io.go"; s_func := "regexSplitter.scan"; s_kind := SKIndex; s_ord := 0; s_arg := AKOther; s_text := "loc[0]" |};
    {| s_pkg := "interp"; s_file := "io.go"; s_func := "regexSplitter.scan"; s_kind := SKIndex; s_ord := 1; s_arg := AKOther; s_text := "loc[1]" |};
    {| s_pkg := "interp"; s_file := "io.go"; s_func := "regexSplitter.scan"; s_kind := SKIndex; s_ord := 2; s_arg := AKOther; s_text := "loc[0]" |};
    {| s_pkg := "interp"; s_file := "io.go"; s_func := "regexSplitter.scan"; s_kind := SKIndex; s_ord := 3; s_arg := AKOther; s_text := "loc[1]" |};
    {| s_pkg := "interp"; s_file := "io.go"; s_func := "regexSplitter.scan"; s_kind := SKIndex; s_ord := 4; s_arg := AKOther; s_text := "loc[1]" |};
    {| s_pkg := "interp"; s_file := "io.go"; s_func := "regexSplitter.scan"; s_kind := SKIndex; s_ord := 5; s_arg := AKOther; s_text := "loc[0]" |};
    {| s_pkg := "interp"; s_file := "io.go"; s_func := "*csvSplitter.scan"; s_kind := SKIndex; s_ord := 0; s_arg := AKLenChecked; s_text := "data[0]" |};
    {| s_pkg := "interp"; s_file := "io.go"; s_func := "*csvSplitter.scan"; s_kind := SKIndex; s_ord := 1; s_arg := AKLenChecked; s_text := "data[1]" |};
    {| s_pkg := "interp"; s_file := "io.go"; s_func := "*csvSplitter.scan"; s_kind := SKIndex; s_ord := 2; s_arg := AKLenChecked; s_text := "data[2]" |};
    {| s_pkg := "interp"; s_file := "io.go"; s_func := "*csvSplitter.scan"; s_kind := SKIndex; s_ord := 3; s_arg := AKLenChecked; s_text := "line[len(line)-1]" |};
    {| s_pkg := "interp"; s_file := "io.go"; s_func := "*csvSplitter.scan"; s_kind := SKIndex; s_ord := 4; s_arg := AKLenChecked; s_text := "line[0]" |};
    {| s_pkg := "interp"; s_file := "io.go"; s_func := "lenNewline"; s_kind := SKIndex; s_ord := 0; s_arg := AKLenChecked; s_text := "b[len(b)-1]" |};
    {| s_pkg := "interp"; s_file := "io.go"; s_func := "lenNewline"; s_kind := SKIndex; s_ord := 1; s_arg := AKLenChecked; s_text := "b[len(b)-2]" |};
    {| s_pkg := "interp"; s_file := "io.go"; s_func := "*interp.splitOnFieldSepRegex"; s_kind := SKIndex; s_ord := 0; s_arg := AKOther; s_text := "match[0]" |};
    {| s_pkg := "interp"; s_file := "io.go"; s_func := "*interp.splitOnFieldSepRegex"; s_kind := SKIndex; s_ord := 1; s_arg := AKOther; s_text := "match[1]" |};
    {| s_pkg := "interp"; s_file := "io.go"; s_func := "*interp.nextLine"; s_kind := SKIndex; s_ord := 0; s_arg := AKLenChecked; s_text := "matches[1]" |};
    {| s_pkg := "interp"; s_file := "io.go"; s_func := "*interp.nextLine"; s_kind := SKIndex; s_ord := 1; s_arg := AKLenChecked; s_text := "matches[2]" |};
    {| s_pkg := "interp"; s_file := "value.go"; s_func := "parseFloat"; s_kind := SKIndex; s_ord := 0; s_arg := AKLenChecked; s_text := "s[0]" |};
    {| s_pkg := "interp"; s_file := "value.go"; s_func := "parseFloat"; s_kind := SKIndex; s_ord := 1; s_arg := AKLenChecked; s_text := "s[0]" |};
    {| s_pkg := "interp"; s_file := "value.go"; s_func := "hasHexPrefix"; s_kind := SKIndex; s_ord := 0; s_arg := AKOther; s_text := "s[0]" |};
    {| s_pkg := "interp"; s_file := "value.go"; s_func := "hasHexPrefix"; s_kind := SKIndex; s_ord := 1; s_arg := AKOther; s_text := "s[1]" |};
    {| s_pkg := "interp"; s_file := "value.go"; s_func := "hasHexPrefix"; s_kind := SKIndex; s_ord := 2; s_arg := AKOther; s_text := "s[1]" |};
    {| s_pkg := "interp"; s_file := "value.go"; s_func := "hasNaNPrefix"; s_kind := SKIndex; s_ord := 0; s_arg := AKOther; s_text := "s[0]" |};
    {| s_pkg := "interp"; s_file := "value.go"; s_func := "hasNaNPrefix"; s_kind := SKIndex; s_ord := 1; s_arg := AKOther; s_text := "s[0]" |};
    {| s_pkg := "interp"; s_file := "value.go"; s_func := "hasNaNPrefix"; s_kind := SKIndex; s_ord := 2; s_arg := AKOther; s_text := "s[1]" |};
    {| s_pkg := "interp"; s_file := "value.go"; s_func := "hasNaNPrefix"; s_kind := SKIndex; s_ord := 3; s_arg := AKOther; s_text := "s[1]" |};
    {| s_pkg := "interp"; s_file := "value.go"; s_func := "hasNaNPrefix"; s_kind := SKIndex; s_ord := 4; s_arg := AKOther; s_text := "s[2]" |};
    {| s_pkg := "interp"; s_file := "value.go"; s_func := "hasNaNPrefix"; s_kind := SKIndex; s_ord := 5; s_arg := AKOther; s_text := "s[2]" |};
    {| s_pkg := "interp"; s_file := "value.go"; s_func := "hasInfPrefix"; s_kind := SKIndex; s_ord := 0; s_arg := AKOther; s_text := "s[0]" |};
    {| s_pkg := "interp"; s_file := "value.go"; s_func := "hasInfPrefix"; s_kind := SKIndex; s_ord := 1; s_arg := AKOther; s_text := "s[0]" |};
    {| s_pkg := "interp"; s_file := "value.go"; s_func := "hasInfPrefix"; s_kind := SKIndex; s_ord := 2; s_arg := AKOther; s_text := "s[1]" |};
    {| s_pkg := "interp"; s_file := "value.go"; s_func := "hasInfPrefix"; s_kind := SKIndex; s_ord := 3; s_arg := AKOther; s_text := "s[1]" |};
    {| s_pkg := "interp"; s_file := "value.go"; s_func := "hasInfPrefix"; s_kind := SKIndex; s_ord := 4; s_arg := AKOther; s_text := "s[2]" |};
    {| s_pkg := "interp"; s_file := "value.go"; s_func := "hasInfPrefix"; s_kind := SKIndex; s_ord := 5; s_arg := AKOther; s_text := "s[2]" |};
    {| s_pkg := "interp"; s_file := "vm.go"; s_func := "*interp.execute"; s_kind := SKIndex; s_ord := 0; s_arg := AKOther; s_text := "s[0]" |};
    {| s_pkg := "interp"; s_file := "vm.go"; s_func := "*interp.execute"; s_kind := SKIndex; s_ord := 1; s_arg := AKOther; s_text := "s[1]" |};
    {| s_pkg := "interp"; s_file := "vm.go"; s_func := "*interp.execute"; s_kind := SKIndex; s_ord := 2; s_arg := AKOther; s_text := "s[2]" |};
    {| s_pkg := "interp"; s_file := "vm.go"; s_func := "*interp.execute"; s_kind := SKIndex; s_ord := 3; s_arg := AKOther; s_text := "s[0]" |};
    {| s_pkg := "interp"; s_file := "vm.go"; s_func := "*interp.execute"; s_kind := SKIndex; s_ord := 4; s_arg := AKOther; s_text := "s[1]" |};
    {| s_pkg := "interp"; s_file := "vm.go"; s_func := "*interp.execute"; s_kind := SKIndex; s_ord := 5; s_arg := AKOther; s_text := "s[2]" |};
    {| s_pkg := "interp"; s_file := "vm.go"; s_func := "*interp.execute"; s_kind := SKIndex; s_ord := 6; s_arg := AKOther; s_text := "args[0]" |};
    {| s_pkg := "interp"; s_file := "vm.go"; s_func := "*interp.execute"; s_kind := SKIndex; s_ord := 7; s_arg := AKOther; s_text := "args[0]" |};
    {| s_pkg := "interp"; s_file := "vm.go"; s_func := "*interp.callBuiltin"; s_kind := SKIndex; s_ord := 0; s_arg := AKOther; s_text := "loc[0]" |};
    {| s_pkg := "interp"; s_file := "vm.go"; s_func := "*interp.callBuiltin"; s_kind := SKIndex; s_ord := 1; s_arg := AKOther; s_text := "loc[0]" |};
    {| s_pkg := "interp"; s_file := "vm.go"; s_func := "*interp.callBuiltin"; s_kind := SKIndex; s_ord := 2; s_arg := AKOther; s_text := "loc[1]" |};
    {| s_pkg := "interp"; s_file := "vm.go"; s_func := "*interp.callBuiltin"; s_kind := SKIndex; s_ord := 3; s_arg := AKOther; s_text := "loc[0]" |};
    {| s_pkg := "interp"; s_file := "vm.go"; s_func := "*interp.callBuiltin"; s_kind := SKIndex; s_ord := 4; s_arg := AKOther; s_text := "loc[1]" |};
    {| s_pkg := "interp"; s_file := "vm.go"; s_func := "*interp.callBuiltin"; s_kind := SKIndex; s_ord := 5; s_arg := AKOther; s_text := "loc[0]" |};
    {| s_pkg := "."; s_file := "goawk.go"; s_func := "main"; s_kind := SKIndex; s_ord := 0; s_arg := AKLenChecked; s_text := "args[0]" |};
    {| s_pkg := "."; s_file := "goawk.go"; s_func := "main"; s_kind := SKIndex; s_ord := 1; s_arg := AKLenChecked; s_text := "os.Args[0]" |} ].
