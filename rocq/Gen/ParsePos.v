(* GENERATED from the repository source by /verif/translator on every check. Do not edit. *)
From Coq Require Import String List ZArith.
Import ListNotations.
Open Scope string_scope.
Open Scope Z_scope.
Inductive origin : Type :=
| OCur                      (* p.pos: position of the current token *)
| OField (f : string)       (* x.f, f a field whose name ends in Pos *)
| OLit (line col : Z)       (* lexer.Position{Line: line, Column: col} *)
| OExpectName               (* second result of p.expectName() *)
| OMapValue (m : string)    (* a value ranged over p.<m> *)
| OScan (f : string)        (* first result of p.lexer.<f>() *)
| OUnknown (e : string).
Record site : Type := mkSite { s_file : string; s_func : string; s_what : string; s_arg : string; s_origins : list origin }.
Definition pos_error_sites : list site := [
  mkSite "parser/parser.go" "_assign" "PosErrorf" "leftPos" [OCur];
  mkSite "parser/parser.go" "primary" "PosErrorf" "exprPos" [OCur];
  mkSite "parser/parser.go" "primary" "PosErrorf" "inPos" [OCur];
  mkSite "parser/parser.go" "errorf" "PosErrorf" "p.pos" [OCur];
  mkSite "parser/parser.go" "checkMultiExprs" "PosErrorf" "min" [OLit 1000000000 1000000000; OMapValue "multiExprs"];
  mkSite "internal/resolver/resolve.go" "Resolve" "PosErrorf" "lexer.Position{Line: 1, Column: 1}" [OLit 1 1];
  mkSite "internal/resolver/resolve.go" "recordVar" "PosErrorf" "pos" [OField "ArrayPos"; OField "Pos"; OField "VarPos"; OLit 1 1];
  mkSite "internal/resolver/resolve.go" "recordVar" "PosErrorf" "pos" [OField "ArrayPos"; OField "Pos"; OField "VarPos"; OLit 1 1];
  mkSite "internal/resolver/resolve.go" "Visit" "PosErrorf" "n.Pos" [OField "Pos"];
  mkSite "internal/resolver/resolve.go" "Visit" "PosErrorf" "n.Pos" [OField "Pos"];
  mkSite "internal/resolver/resolve.go" "Visit" "PosErrorf" "n.Pos" [OField "Pos"];
  mkSite "internal/resolver/resolve.go" "Visit" "PosErrorf" "n.Pos" [OField "Pos"];
  mkSite "internal/resolver/resolve.go" "Visit" "PosErrorf" "n.Pos" [OField "Pos"];
  mkSite "internal/resolver/resolve.go" "Visit" "PosErrorf" "n.Pos" [OField "Pos"];
  mkSite "internal/resolver/resolve.go" "Visit" "PosErrorf" "varExpr.Pos" [OField "Pos"]
].
Definition pos_store_sites : list site := [
  mkSite "parser/parser.go" "simpleStmt" "ast.DeleteStmt.ArrayPos" "namePos" [OExpectName];
  mkSite "parser/parser.go" "stmt" "ast.ForInStmt.VarPos" "varExpr.Pos" [OField "Pos"];
  mkSite "parser/parser.go" "stmt" "ast.ForInStmt.ArrayPos" "inExpr.ArrayPos" [OField "ArrayPos"];
  mkSite "parser/parser.go" "function" "ast.Function.Pos" "funcNamePos" [OExpectName];
  mkSite "parser/parser.go" "_in" "ast.InExpr.ArrayPos" "namePos" [OExpectName];
  mkSite "parser/parser.go" "primary" "ast.IndexExpr.ArrayPos" "namePos" [OExpectName];
  mkSite "parser/parser.go" "primary" "ast.VarExpr.Pos" "namePos" [OExpectName];
  mkSite "parser/parser.go" "primary" "ast.InExpr.ArrayPos" "namePos" [OExpectName];
  mkSite "parser/parser.go" "primary" "ast.VarExpr.Pos" "namePos" [OExpectName];
  mkSite "parser/parser.go" "optionalLValue" "ast.IndexExpr.ArrayPos" "namePos" [OExpectName];
  mkSite "parser/parser.go" "optionalLValue" "ast.VarExpr.Pos" "namePos" [OExpectName];
  mkSite "parser/parser.go" "userCall" "ast.UserCallExpr.Pos" "pos" [OExpectName];
  mkSite "parser/parser.go" "multiExpr" "p.multiExprs[]" "pos" [OCur];
  mkSite "parser/parser.go" "expectName" "return (second result)" "pos" [OCur]
].
Definition cur_assign_sites : list site := [
  mkSite "parser/parser.go" "next" "p.pos =" "p.lexer.Scan()" [OScan "Scan"];
  mkSite "parser/parser.go" "nextRegex" "p.pos =" "p.lexer.ScanRegex()" [OScan "ScanRegex"]
].
Record assert_site : Type := mkAssert { a_file : string; a_func : string; a_expr : string; a_typ : string;
  a_in_recover : bool; a_case : string; a_guard : string; a_assigns : nat }.
Record arg_check : Type := mkArgCheck { k_file : string; k_func : string; k_range_over : string; k_value : string;
  k_has_check : bool; k_reassigned : nat; k_rejects : bool }.
Definition unchecked_asserts : list assert_site := [
  mkAssert "internal/compiler/compiler.go" "Compile" "r" "*compileError" true "" "r != nil" 0;
  mkAssert "internal/compiler/compiler.go" "expr" "e.Args[1]" "*ast.VarExpr" false "lexer.F_SPLIT" "" 0;
  mkAssert "internal/compiler/compiler.go" "expr" "arg" "*ast.VarExpr" false "*ast.UserCallExpr" "f.Arrays[i]" 0;
  mkAssert "internal/resolver/resolve.go" "Visit" "n.Args[1]" "*ast.VarExpr" false "lexer.F_SPLIT" "" 0;
  mkAssert "parser/parser.go" "ParseProgram" "r" "*ast.PositionError" true "" "r != nil" 0
].
Definition array_arg_checks : list arg_check := [
  mkArgCheck "internal/resolver/resolve.go" "Visit" "n.Args" "arg" true 0 true
].
Definition split_args_init : list string := ["expr:str"; "lit:ast.VarExpr"].
Record counter_site : Type := mkCounter { c_func : string; c_field : string; c_incs : nat; c_decs : nat; c_returns_between : nat }.
Definition counter_sites : list counter_site := [
  mkCounter "loopStmts" "loopDepth" 1 1 0
].
Definition gen_tokens : list (string * Z) := [
  ("ILLEGAL", 0);
  ("EOF", 1);
  ("NEWLINE", 2);
  ("CONCAT", 3);
  ("ADD", 4);
  ("ADD_ASSIGN", 5);
  ("AND", 6);
  ("APPEND", 7);
  ("ASSIGN", 8);
  ("AT", 9);
  ("COLON", 10);
  ("COMMA", 11);
  ("DECR", 12);
  ("DIV", 13);
  ("DIV_ASSIGN", 14);
  ("DOLLAR", 15);
  ("EQUALS", 16);
  ("GTE", 17);
  ("GREATER", 18);
  ("INCR", 19);
  ("LBRACE", 20);
  ("LBRACKET", 21);
  ("LESS", 22);
  ("LPAREN", 23);
  ("LTE", 24);
  ("MATCH", 25);
  ("MOD", 26);
  ("MOD_ASSIGN", 27);
  ("MUL", 28);
  ("MUL_ASSIGN", 29);
  ("NOT_MATCH", 30);
  ("NOT", 31);
  ("NOT_EQUALS", 32);
  ("OR", 33);
  ("PIPE", 34);
  ("POW", 35);
  ("POW_ASSIGN", 36);
  ("QUESTION", 37);
  ("RBRACE", 38);
  ("RBRACKET", 39);
  ("RPAREN", 40);
  ("SEMICOLON", 41);
  ("SUB", 42);
  ("SUB_ASSIGN", 43);
  ("BEGIN", 44);
  ("BREAK", 45);
  ("CONTINUE", 46);
  ("DELETE", 47);
  ("DO", 48);
  ("ELSE", 49);
  ("END", 50);
  ("EXIT", 51);
  ("FOR", 52);
  ("FUNCTION", 53);
  ("GETLINE", 54);
  ("IF", 55);
  ("IN", 56);
  ("NEXT", 57);
  ("NEXTFILE", 58);
  ("PRINT", 59);
  ("PRINTF", 60);
  ("RETURN", 61);
  ("WHILE", 62);
  ("F_ATAN2", 63);
  ("F_CLOSE", 64);
  ("F_COS", 65);
  ("F_EXP", 66);
  ("F_FFLUSH", 67);
  ("F_GSUB", 68);
  ("F_INDEX", 69);
  ("F_INT", 70);
  ("F_LENGTH", 71);
  ("F_LOG", 72);
  ("F_MATCH", 73);
  ("F_RAND", 74);
  ("F_SIN", 75);
  ("F_SPLIT", 76);
  ("F_SPRINTF", 77);
  ("F_SQRT", 78);
  ("F_SRAND", 79);
  ("F_SUB", 80);
  ("F_SUBSTR", 81);
  ("F_SYSTEM", 82);
  ("F_TOLOWER", 83);
  ("F_TOUPPER", 84);
  ("NAME", 85);
  ("NUMBER", 86);
  ("STRING", 87);
  ("REGEX", 88)
].
Definition gen_keywords : list (string * string) := [
  ("BEGIN", "BEGIN");
  ("break", "BREAK");
  ("continue", "CONTINUE");
  ("delete", "DELETE");
  ("do", "DO");
  ("else", "ELSE");
  ("END", "END");
  ("exit", "EXIT");
  ("for", "FOR");
  ("function", "FUNCTION");
  ("getline", "GETLINE");
  ("if", "IF");
  ("in", "IN");
  ("next", "NEXT");
  ("nextfile", "NEXTFILE");
  ("print", "PRINT");
  ("printf", "PRINTF");
  ("return", "RETURN");
  ("while", "WHILE");
  ("atan2", "F_ATAN2");
  ("close", "F_CLOSE");
  ("cos", "F_COS");
  ("exp", "F_EXP");
  ("fflush", "F_FFLUSH");
  ("gsub", "F_GSUB");
  ("index", "F_INDEX");
  ("int", "F_INT");
  ("length", "F_LENGTH");
  ("log", "F_LOG");
  ("match", "F_MATCH");
  ("rand", "F_RAND");
  ("sin", "F_SIN");
  ("split", "F_SPLIT");
  ("sprintf", "F_SPRINTF");
  ("sqrt", "F_SQRT");
  ("srand", "F_SRAND");
  ("sub", "F_SUB");
  ("substr", "F_SUBSTR");
  ("system", "F_SYSTEM");
  ("tolower", "F_TOLOWER");
  ("toupper", "F_TOUPPER")
].
