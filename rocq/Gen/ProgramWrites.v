(* GENERATED from the repository source by /verif/translator on every check. Do not edit. *)
From Coq Require Import String List ZArith.
Import ListNotations.
Open Scope string_scope.

Record pw_site := mkPW { pw_origin : list string; pw_kind : string; pw_pkg : string; pw_file : string;
  pw_func : string; pw_ord : Z; pw_text : string }.

(* variables of package interp that hold the parser.Program: (function or "field", name) *)
Definition seeds : list (string * string) :=
  [("Exec", "prog");
   ("ExecProgram", "program");
   ("New", "program");
   ("field", "program");
   ("newInterp", "program")].

(* struct fields that may hold a reference into shared data: (struct, field, origins) *)
Definition alias_fields : list (string * string * list string) :=
  [("interp.interp", "functions", ["program"]);
   ("interp.interp", "nums", ["program"]);
   ("interp.interp", "program", ["program"]);
   ("interp.interp", "regexes", ["program"]);
   ("interp.interp", "shellCommand", ["global:interp.defaultShellCommand"]);
   ("interp.interp", "strs", ["program"])].

(* writes whose target is shared data (outside func init) *)
Definition write_sites : list pw_site :=
  [mkPW ["global:interp.defaultShellCommand"] "append" "interp" "io.go" "*interp.execShell" 1 "append(args, code)"].

(* calls leaving the repository with a shared reference: pw_text = callee, pw_kind = recv | arg<i> *)
Definition ext_calls : list pw_site :=
  [mkPW ["global:interp.defaultShellCommand"] "arg1" "interp" "io.go" "*interp.execShell" 2 "os/exec.Command";
   mkPW ["global:interp.defaultShellCommand"] "arg2" "interp" "io.go" "*interp.execShell" 1 "os/exec.CommandContext";
   mkPW ["global:interp.varRegex"] "recv" "interp" "io.go" "*interp.nextLine" 1 "(*regexp.Regexp).FindStringSubmatch";
   mkPW ["program"] "recv" "interp" "vm.go" "*interp.execute" 1 "(*regexp.Regexp).MatchString"].

(* calls through function values with a shared reference *)
Definition dyn_calls : list pw_site :=
  [].

(* foreign functions assumed to return memory that does not alias their arguments *)
Definition assumed_fresh : list string := ["os/exec.Command"; "os/exec.CommandContext"].

(* range statements over maps in the front end: (package, file, function, ordinal, text) *)
Definition map_ranges : list (string * string * string * Z * string) :=
  [("internal/resolver", "resolve.go", "*ResolvedProgram.IterFuncs", 1%Z, "for name, info := range r.resolver.funcInfo { f(name, info) }");
   ("internal/resolver", "resolve.go", "*ResolvedProgram.IterVars", 1%Z, "for name, info := range r.resolver.varInfo[funcName] { f(name, info) }");
   ("internal/resolver", "resolve.go", "*resolver.numVars", 1%Z, "for _, infos := range r.varInfo { n += len(infos) }");
   ("internal/resolver", "resolve.go", "Resolve", 1%Z, "for name := range config.Funcs { nativeNames = append(nativeNames, name) }");
   ("internal/resolver", "resolve.go", "Resolve", 2%Z, "for name := range callGraph.funcs { if _, ok := called[name]; !ok { uncalled = append(uncalled, name) } }");
   ("internal/resolver", "resolve.go", "Resolve", 3%Z, "for funcName, info := range funcInfo { if info.Native { continue } varInfo[funcName] = make(map[string]VarInfo) for _, param := range info.Params { varInfo[funcName][param] = VarInfo{} } }");
   ("internal/resolver", "resolve.go", "Resolve", 4%Z, "for _, infos := range r.varInfo { for varName, info := range infos { if info.Type == unknown { infos[varName] = VarInfo{Type: Scalar, Index: info.Index} } } }");
   ("internal/resolver", "resolve.go", "Resolve", 5%Z, "for varName, info := range infos { if info.Type == unknown { infos[varName] = VarInfo{Type: Scalar, Index: info.Index} } }");
   ("internal/resolver", "resolve.go", "Resolve", 6%Z, "for funcName, infos := range r.varInfo { var names []string if funcName == """" { for name := range infos { names = append(names, name) } sort.Strings(names) } else { names = r.funcInfo[funcName].Params } scalar := 0 array := 0 for _, name := range names { info := infos[name] if info.Type == Array { infos[name] = VarInfo{Type: info.Type, Index: array} array++ } else { infos[name] = VarInfo{Type: info.Type, Index: scalar} scalar++ } } }");
   ("internal/resolver", "resolve.go", "Resolve", 7%Z, "for name := range infos { names = append(names, name) }");
   ("internal/resolver", "resolve.go", "printVarTypes", 1%Z, "for funcName := range varInfo { funcNames = append(funcNames, funcName) }");
   ("internal/resolver", "resolve.go", "printVarTypes", 2%Z, "for name := range varInfo[funcName] { varNames = append(varNames, name) }");
   ("internal/resolver", "toposort.go", "topoSort", 1%Z, "for node := range graph { nodes = append(nodes, node) }");
   ("internal/resolver", "toposort.go", "topoSort", 2%Z, "for m := range graph[n] { successors = append(successors, m) }");
   ("parser", "parser.go", "*parser.checkMultiExprs", 1%Z, "for _, pos := range p.multiExprs { if pos.Line < min.Line || pos.Line == min.Line && pos.Column < min.Column { min = pos } }")].

(* calls of IterVars / IterFuncs (callbacks run in map order): (package, file, function, ordinal, text) *)
Definition iter_callers : list (string * string * string * Z * string) :=
  [("internal/compiler", "compiler.go", "Compile", 1%Z, "resolved.IterVars("""", func(name string, info resolver.VarInfo) { if info.Type == resolver.Array { for len(p.arrayNames) <= info.Index { p.arrayNames = append(p.arrayNames, """") } p.arrayNames[info.Index] = name } else { for len(p.scalarNames) <= info.Index { p.scalarNames = append(p.scalarNames, """") } p.scalarNames[info.Index] = name } })");
   ("internal/compiler", "compiler.go", "Compile", 2%Z, "resolved.IterFuncs(func(name string, info resolver.FuncInfo) { if !info.Native { return } for len(p.nativeFuncNames) <= info.Index { p.nativeFuncNames = append(p.nativeFuncNames, """") } p.nativeFuncNames[info.Index] = name })");
   ("interp", "interp.go", "newInterp", 1%Z, "program.IterVars("""", func(name string, info resolver.VarInfo) { if info.Type == resolver.Array { p.arrayIndexes[name] = info.Index } else { p.scalarIndexes[name] = info.Index } })")].

(* package-level variables: (package, name, type, holds references) *)
Definition pkg_vars : list (string * string * string * bool) :=
  [("interp", "asciiSpace", "[256]uint8", false);
   ("interp", "defaultShellCommand", "[]string", true);
   ("interp", "errBreak", "error", true);
   ("interp", "errCSVSeparator", "error", true);
   ("interp", "errDoubleClose", "error", true);
   ("interp", "errExit", "error", true);
   ("interp", "errNext", "error", true);
   ("interp", "errNextfile", "error", true);
   ("interp", "errNoFileReads", "error", true);
   ("interp", "errorType", "reflect.Type", true);
   ("interp", "varRegex", "*regexp.Regexp", true);
   ("lexer", "keywordTokens", "map[string]lexer.Token", true);
   ("lexer", "tokenNames", "map[lexer.Token]string", true);
   ("internal/ast", "specialVars", "map[string]int", true);
   ("internal/compiler", "_AugOp_index", "[7]uint8", false);
   ("internal/compiler", "_BuiltinOp_index", "[25]uint16", false);
   ("internal/compiler", "_Opcode_index", "[96]uint16", false)].
