(* GENERATED from the repository source by /verif/translator on every check. Do not edit. *)
From Coq Require Import String List ZArith.
Import ListNotations.
Open Scope string_scope.

Record pw_site := mkPW { pw_origin : list string; pw_kind : string; pw_pkg : string; pw_file : string;
  pw_func : string; pw_ord : Z; pw_text : string }.

(* variables of package interp that hold the parser.Program: (function or "field", name) *)
Definition seeds : list (string * string) :=
  [("Exec", "prog");
   ("ExecProgram", "program");
   ("New", "program");
   ("field", "program");
   ("newInterp", "program")].

(* struct fields that may hold a reference into shared data: (struct, field, origins) *)
Definition alias_fields : list (string * string * list string) :=
  [("interp.interp", "functions", ["program"]);
   ("interp.interp", "nums", ["program"]);
   ("interp.interp", "program", ["program"]);
   ("interp.interp", "regexes", ["program"]);
   ("interp.interp", "shellCommand", ["global:interp.defaultShellCommand"]);
   ("interp.interp", "strs", ["program"])].

(* writes whose target is shared data (outside func init) *)
Definition write_sites : list pw_site :=
  [mkPW ["global:interp.defaultShellCommand"] "append" "interp" "io.go" "*interp.execShell" 1 "append(args, code)"].

(* calls leaving the repository with a shared reference: pw_text = callee, pw_kind = recv | arg<i> *)
Definition ext_calls : list pw_site :=
  [mkPW ["global:interp.defaultShellCommand"] "arg1" "interp" "io.go" "*interp.execShell" 2 "os/exec.Command";
   mkPW ["global:interp.defaultShellCommand"] "arg2" "interp" "io.go" "*interp.execShell" 1 "os/exec.CommandContext";
   mkPW ["global:interp.varRegex"] "recv" "interp" "io.go" "*interp.nextLine" 1 "(*regexp.Regexp).FindStringSubmatch";
   mkPW ["program"] "recv" "interp" "vm.go" "*interp.execute" 1 "(*regexp.Regexp).MatchString"].

(* calls through function values with a shared reference *)
Definition dyn_calls : list pw_site :=
  [].

(* foreign functions assumed to return memory that does not alias their arguments *)
Definition assumed_fresh : list string := ["os/exec.Command"; "os/exec.CommandContext"].

(* package-level variables: (package, name, type, holds references) *)
Definition pkg_vars : list (string * string * string * bool) :=
  [("interp", "asciiSpace", "[256]uint8", false);
   ("interp", "defaultShellCommand", "[]string", true);
   ("interp", "errBreak", "error", true);
   ("interp", "errCSVSeparator", "error", true);
   ("interp", "errDoubleClose", "error", true);
   ("interp", "errExit", "error", true);
   ("interp", "errNext", "error", true);
   ("interp", "errNextfile", "error", true);
   ("interp", "errorType", "reflect.Type", true);
   ("interp", "varRegex", "*regexp.Regexp", true);
   ("lexer", "keywordTokens", "map[string]lexer.Token", true);
   ("lexer", "tokenNames", "map[lexer.Token]string", true);
   ("internal/ast", "specialVars", "map[string]int", true);
   ("internal/compiler", "_AugOp_index", "[7]uint8", false);
   ("internal/compiler", "_BuiltinOp_index", "[25]uint16", false);
   ("internal/compiler", "_Opcode_index", "[96]uint16", false)].
