(* GENERATED from the repository source by /verif/translator on every check. Do not edit. *)
From Coq Require Import ZArith.
Open Scope Z_scope.
Definition maxFieldIndex : Z := 1000000.
Definition maxCallDepth : Z := 1000.
Definition checkContextOps : Z := 1000.
Definition maxCachedRegexes : Z := 100.
Definition maxCachedFormats : Z := 100.
Definition initialStackSize : Z := 100.
