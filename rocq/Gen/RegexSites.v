(* GENERATED from the repository source by /verif/translator on every check. Do not edit. *)
From Coq Require Import String List ZArith.
Import ListNotations.
Open Scope string_scope.

Inductive re_target : Type :=
| TLocal (name : string)      (* x, err := regexp.Compile(..) *)
| TField (expr : string)      (* p.f = regexp.MustCompile(..) *)
| TDiscard                    (* _, err := regexp.Compile(..): the compiled regex is thrown away *)
| TPkgVar (name : string)     (* package-level var *)
| TOther (descr : string).

Record re_site : Type := mkReSite {
  rs_pkg : string;
  rs_file : string;
  rs_func : string;             (* enclosing function *)
  rs_call : string;             (* Compile | MustCompile | ...POSIX *)
  rs_arg : string;              (* source text of the argument *)
  rs_target : re_target;
  rs_longest : bool;            (* .Longest() is called on the target in the statements that follow *)
  rs_early_uses : list string;  (* uses of the target reachable before .Longest() has been called *)
  rs_fall_longest : bool        (* control cannot leave the enclosing block without .Longest() called *)
}.

Definition regex_sites : list re_site := [
  (* interp/interp.go:47 *)
  mkReSite "interp" "interp.go" "(package variable)" "MustCompile" "`(?s)^([_a-zA-Z][_a-zA-Z0-9]*)=(.*)`"
    (TPkgVar "varRegex") false [] false;
  (* interp/interp.go:903 *)
  mkReSite "interp" "interp.go" "setSpecial" "Compile" "compiler.AddRegexFlags(fieldSep)"
    (TLocal "re") true [] true;
  (* interp/interp.go:931 *)
  mkReSite "interp" "interp.go" "setSpecial" "MustCompile" "sep"
    (TField "p.recordSepRegex") true [] true;
  (* interp/interp.go:936 *)
  mkReSite "interp" "interp.go" "setSpecial" "MustCompile" "sep"
    (TField "p.recordSepRegex") true [] true;
  (* interp/interp.go:939 *)
  mkReSite "interp" "interp.go" "setSpecial" "Compile" "compiler.AddRegexFlags(recordSep)"
    (TLocal "re") true [] true;
  (* interp/interp.go:1101 *)
  mkReSite "interp" "interp.go" "compileRegex" "Compile" "compiler.AddRegexFlags(regex)"
    (TLocal "re") true [] true;
  (* internal/compiler/compiler.go:1114 *)
  mkReSite "internal/compiler" "compiler.go" "regexIndex" "MustCompile" "AddRegexFlags(r)"
    (TLocal "re") true [] true;
  (* parser/parser.go:1043 *)
  mkReSite "parser" "parser.go" "nextRegex" "Compile" "compiler.AddRegexFlags(regex)"
    (TDiscard) false [] true
].
