(* GENERATED from the repository source by /verif/translator on every check. Do not edit. *)
From Coq Require Import String List.
Import ListNotations.
Open Scope string_scope.

Record pkgref := mkRef { r_func : string; r_pkg : string; r_sel : string; r_call : bool }.
Record site := mkSite { s_func : string; s_callee : string; s_arg : string; s_guards : list string }.

Definition sensitive_refs : list pkgref := [
  mkRef "interp.setExecuteConfig" "os" "Environ" true;
  mkRef "(package level)" "os" "File" false;
  mkRef "(package level)" "os" "FileMode" false;
  mkRef "interp.getOutputStream" "os" "O_APPEND" false;
  mkRef "interp.getOutputStream" "os" "O_CREATE" false;
  mkRef "interp.getInputScannerFile" "os" "O_RDONLY" false;
  mkRef "interp.nextLine" "os" "O_RDONLY" false;
  mkRef "interp.getOutputStream" "os" "O_TRUNC" false;
  mkRef "interp.getOutputStream" "os" "O_WRONLY" false;
  mkRef "interp.setExecuteConfig" "os" "OpenFile" false;
  mkRef "interp.setExecuteConfig" "os" "Stderr" false;
  mkRef "interp.setExecuteConfig" "os" "Stdin" false;
  mkRef "interp.setExecuteConfig" "os" "Stdout" false;
  mkRef "(package level)" "os/exec" "Cmd" false;
  mkRef "interp.execShell" "os/exec" "Cmd" false;
  mkRef "newInCmdStream" "os/exec" "Cmd" false;
  mkRef "newOutCmdStream" "os/exec" "Cmd" false;
  mkRef "waitExitCode" "os/exec" "Cmd" false;
  mkRef "interp.execShell" "os/exec" "Command" true;
  mkRef "interp.execShell" "os/exec" "CommandContext" true;
  mkRef "waitExitCode" "os/exec" "ExitError" false;
  mkRef "waitExitCode" "syscall" "WaitStatus" false
].

Definition openfile_sites : list site := [
  mkSite "interp.getInputScannerFile" "p.openFile" "os.O_RDONLY" ["p.noFileReads"];
  mkSite "interp.getOutputStream" "p.openFile" "flags{:= os.O_CREATE | os.O_WRONLY; |= os.O_TRUNC; |= os.O_APPEND}" ["p.noFileWrites"];
  mkSite "interp.nextLine" "p.openFile" "os.O_RDONLY" ["p.filenameIndex >= int(p.argc.num())"; "p.noFileReads"]
].

Definition execshell_sites : list site := [
  mkSite "interp.callBuiltin" "p.execShell" "" ["p.noExec"];
  mkSite "interp.getInputScannerPipe" "p.execShell" "" ["p.noExec"];
  mkSite "interp.getOutputStream" "p.execShell" "" ["p.noExec"]
].

Definition start_sites : list site := [
  mkSite "interp.callBuiltin" "cmd.Start" "" ["p.noExec"];
  mkSite "newInCmdStream" "cmd.Start" "" ["err != nil"];
  mkSite "newOutCmdStream" "cmd.Start" "" ["err != nil"]
].

Definition cmdstream_sites : list site := [
  mkSite "interp.getInputScannerPipe" "newInCmdStream" "cmd{:= p.execShell(name)}" ["p.noExec"];
  mkSite "interp.getOutputStream" "newOutCmdStream" "cmd{:= p.execShell(name)}" ["p.noExec"]
].

Definition field_assigns : list (string * string * string) := [
  ("interp.setExecuteConfig", "noExec", "= config.NoExec");
  ("interp.setExecuteConfig", "noFileReads", "= config.NoFileReads");
  ("interp.setExecuteConfig", "noFileWrites", "= config.NoFileWrites");
  ("interp.setExecuteConfig", "openFile", "= config.OpenFile");
  ("interp.setExecuteConfig", "openFile", "= os.OpenFile");
  ("interp.setExecuteConfig", "shellCommand", "= config.ShellCommand");
  ("interp.setExecuteConfig", "shellCommand", "= defaultShellCommand")
].

Definition repo_imports : list (string * string) := [
  ("internal/ast", "fmt");
  ("internal/ast", "github.com/benhoyt/goawk/lexer");
  ("internal/ast", "math");
  ("internal/ast", "strconv");
  ("internal/ast", "strings");
  ("internal/ast", "unicode/utf8");
  ("internal/compiler", "fmt");
  ("internal/compiler", "github.com/benhoyt/goawk/internal/ast");
  ("internal/compiler", "github.com/benhoyt/goawk/internal/resolver");
  ("internal/compiler", "github.com/benhoyt/goawk/lexer");
  ("internal/compiler", "io");
  ("internal/compiler", "math");
  ("internal/compiler", "regexp");
  ("internal/compiler", "strconv");
  ("internal/compiler", "strings");
  ("internal/resolver", "fmt");
  ("internal/resolver", "github.com/benhoyt/goawk/internal/ast");
  ("internal/resolver", "github.com/benhoyt/goawk/lexer");
  ("internal/resolver", "io");
  ("internal/resolver", "reflect");
  ("internal/resolver", "sort");
  ("internal/resolver", "strings");
  ("interp", "bufio");
  ("interp", "bytes");
  ("interp", "context");
  ("interp", "encoding/csv");
  ("interp", "errors");
  ("interp", "fmt");
  ("interp", "github.com/benhoyt/goawk/internal/ast");
  ("interp", "github.com/benhoyt/goawk/internal/compiler");
  ("interp", "github.com/benhoyt/goawk/internal/resolver");
  ("interp", "github.com/benhoyt/goawk/lexer");
  ("interp", "github.com/benhoyt/goawk/parser");
  ("interp", "io");
  ("interp", "io/fs");
  ("interp", "math");
  ("interp", "math/big");
  ("interp", "math/rand");
  ("interp", "os");
  ("interp", "os/exec");
  ("interp", "reflect");
  ("interp", "regexp");
  ("interp", "runtime");
  ("interp", "sort");
  ("interp", "strconv");
  ("interp", "strings");
  ("interp", "syscall");
  ("interp", "time");
  ("interp", "unicode/utf8");
  ("lexer", "errors");
  ("lexer", "fmt");
  ("lexer", "unicode/utf8");
  ("parser", "fmt");
  ("parser", "github.com/benhoyt/goawk/internal/ast");
  ("parser", "github.com/benhoyt/goawk/internal/compiler");
  ("parser", "github.com/benhoyt/goawk/internal/resolver");
  ("parser", "github.com/benhoyt/goawk/lexer");
  ("parser", "io");
  ("parser", "regexp");
  ("parser", "strconv");
  ("parser", "strings")
].

Definition labelled_funcs : list string := ["csvSplitter.scan"; "interp.execActions"].
