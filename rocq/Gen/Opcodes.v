(* GENERATED from the repository source by /verif/translator on every check. Do not edit. *)
From Coq Require Import List String.
Import ListNotations.
Open Scope string_scope.
Definition special_names : list string :=
  ["V_ILLEGAL"; "V_ARGC"; "V_CONVFMT"; "V_FILENAME"; "V_FNR"; "V_FS"; "V_INPUTMODE"; "V_NF"; 
   "V_NR"; "V_OFMT"; "V_OFS"; "V_ORS"; "V_OUTPUTMODE"; "V_RLENGTH"; "V_RS"; "V_RSTART"; 
   "V_RT"; "V_SUBSEP"].
Definition opcode_names : list string :=
  ["Nop"; "Num"; "Str"; "Dupe"; "Drop"; "Swap"; "Rote"; "Field"; 
   "FieldInt"; "FieldByName"; "FieldByNameStr"; "Global"; "Local"; "Special"; "ArrayGlobal"; "ArrayLocal"; 
   "InGlobal"; "InLocal"; "AssignField"; "AssignFieldSub"; "AssignGlobal"; "AssignLocal"; "AssignSpecial"; "AssignArrayGlobal"; 
   "AssignArrayLocal"; "Delete"; "DeleteAll"; "IncrField"; "IncrGlobal"; "IncrLocal"; "IncrSpecial"; "IncrArrayGlobal"; 
   "IncrArrayLocal"; "AugAssignField"; "AugAssignGlobal"; "AugAssignLocal"; "AugAssignSpecial"; "AugAssignArrayGlobal"; "AugAssignArrayLocal"; "Regex"; 
   "IndexMulti"; "ConcatMulti"; "Add"; "Subtract"; "Multiply"; "Divide"; "Power"; "Modulo"; 
   "Equals"; "NotEquals"; "Less"; "Greater"; "LessOrEqual"; "GreaterOrEqual"; "Concat"; "Match"; 
   "NotMatch"; "Not"; "UnaryMinus"; "UnaryPlus"; "Boolean"; "Jump"; "JumpFalse"; "JumpTrue"; 
   "JumpEquals"; "JumpNotEquals"; "JumpLess"; "JumpGreater"; "JumpLessOrEqual"; "JumpGreaterOrEqual"; "Next"; "Nextfile"; 
   "Exit"; "ExitStatus"; "ForIn"; "BreakForIn"; "CallBuiltin"; "CallLengthArray"; "CallSplit"; "CallSplitSep"; 
   "CallSprintf"; "CallUser"; "CallNative"; "Return"; "ReturnNull"; "Nulls"; "Print"; "Printf"; 
   "Getline"; "GetlineField"; "GetlineGlobal"; "GetlineLocal"; "GetlineSpecial"; "GetlineArray"; "EndOpcode"].
Definition augop_names : list string :=
  ["AugOpAdd"; "AugOpSub"; "AugOpMul"; "AugOpDiv"; "AugOpPow"; "AugOpMod"].
Definition builtinop_names : list string :=
  ["BuiltinAtan2"; "BuiltinClose"; "BuiltinCos"; "BuiltinExp"; "BuiltinFflush"; "BuiltinFflushAll"; "BuiltinGsub"; "BuiltinIndex"; 
   "BuiltinInt"; "BuiltinLength"; "BuiltinLengthArg"; "BuiltinLog"; "BuiltinMatch"; "BuiltinRand"; "BuiltinSin"; "BuiltinSqrt"; 
   "BuiltinSrand"; "BuiltinSrandSeed"; "BuiltinSub"; "BuiltinSubstr"; "BuiltinSubstrLength"; "BuiltinSystem"; "BuiltinTolower"; "BuiltinToupper"].
Definition token_names : list string :=
  ["ILLEGAL"; "EOF"; "NEWLINE"; "CONCAT"; "ADD"; "ADD_ASSIGN"; "AND"; "APPEND"; 
   "ASSIGN"; "AT"; "COLON"; "COMMA"; "DECR"; "DIV"; "DIV_ASSIGN"; "DOLLAR"; 
   "EQUALS"; "GTE"; "GREATER"; "INCR"; "LBRACE"; "LBRACKET"; "LESS"; "LPAREN"; 
   "LTE"; "MATCH"; "MOD"; "MOD_ASSIGN"; "MUL"; "MUL_ASSIGN"; "NOT_MATCH"; "NOT"; 
   "NOT_EQUALS"; "OR"; "PIPE"; "POW"; "POW_ASSIGN"; "QUESTION"; "RBRACE"; "RBRACKET"; 
   "RPAREN"; "SEMICOLON"; "SUB"; "SUB_ASSIGN"; "BEGIN"; "BREAK"; "CONTINUE"; "DELETE"; 
   "DO"; "ELSE"; "END"; "EXIT"; "FOR"; "FUNCTION"; "GETLINE"; "IF"; 
   "IN"; "NEXT"; "NEXTFILE"; "PRINT"; "PRINTF"; "RETURN"; "WHILE"; "F_ATAN2"; 
   "F_CLOSE"; "F_COS"; "F_EXP"; "F_FFLUSH"; "F_GSUB"; "F_INDEX"; "F_INT"; "F_LENGTH"; 
   "F_LOG"; "F_MATCH"; "F_RAND"; "F_SIN"; "F_SPLIT"; "F_SPRINTF"; "F_SQRT"; "F_SRAND"; 
   "F_SUB"; "F_SUBSTR"; "F_SYSTEM"; "F_TOLOWER"; "F_TOUPPER"; "NAME"; "NUMBER"; "STRING"; 
   "REGEX"].
