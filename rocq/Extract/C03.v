(* Extraction of the C03 model; run by the check driver from the build directory. *)
Require Extraction.
Require Import ExtrOcamlBasic.
From Verif Require Import Lib.Base Lib.Utf8 Model.Lexer.
Extraction "model.ml" scan_all pos_of_offset show_source_line.
