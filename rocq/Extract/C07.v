(* Extraction of the C07 model; run by the check driver from the build directory. *)
Require Extraction.
Require Import ExtrOcamlBasic.
From Verif Require Import Lib.Base Lib.Utf8 Lib.Regex Model.Scanner Model.Splitters.
Extraction "model.ml" records records_sched find.
