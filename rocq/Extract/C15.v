(* Extraction of the C15 models; run by the check driver from the build directory. *)
Require Extraction.
Require Import ExtrOcamlBasic.
From Verif Require Import Lib.Base Model.Compiler Model.Cancel Model.CancelToy Gen.Consts.
Extraction "model.ml" checkContextOps pool_of decode_code code_ok cst_init toy_run cs_execute_context cs_execute.
