(* Extraction of the C16 model; run by the check driver from the build directory. *)
Require Extraction.
Require Import ExtrOcamlBasic.
From Verif Require Import Lib.Base Model.Resolver.
Extraction "model.ml"
  resolve_order resolve_cut resolve resolve_impl name_order_oracle cutoff seed_oracle ordered_funcs
  func_info compile_check wf flat_events constraints.
