(* Extraction of the C12 model; run by the check driver from the build directory. *)
Require Extraction.
Require Import ExtrOcamlBasic.
From Verif Require Import Lib.Base Model.Sandbox.
Extraction "model.ml" run_log init_state env_of_tables mkConfig io_step.
