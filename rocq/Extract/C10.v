(* Extraction of the C10 model; run by the check driver from the build directory. *)
Require Extraction.
Require Import ExtrOcamlBasic.
From Verif Require Import Lib.Base Lib.Dyadic Lib.Utf8 Lib.Regex Model.Builtins Model.BuiltinsRegex.
Extraction "model.ml"
  of_bits canon
  substr_bytes substr_len_bytes substr_chars substr_len_chars
  builtin_int builtin_index builtin_length expand_repl
  match_re sub_re split_re builtin_toupper builtin_tolower all_matches.
