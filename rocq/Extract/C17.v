(* Extraction of the C17 model; run by the check driver from the build directory. *)
Require Extraction.
Require Import ExtrOcamlBasic.
From Verif Require Import Lib.Base Lib.Dyadic Model.Native.
Extraction "model.ml"
  of_bits canon
  check_native_func init_native_funcs resolve_call resolver_index
  to_native from_native call_native run run_history
  v_boolean v_num v_str to_f32 z_to_f64 to_int to_uint sort_names.
