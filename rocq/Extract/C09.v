(* Extraction of the C09 model; run by the check driver from the build directory. *)
Require Extraction.
Require Import ExtrOcamlBasic.
From Verif Require Import Lib.Base Lib.Dyadic Lib.Utf8 Model.Printf.
Extraction "model.ml"
  of_bits canon
  parse_fmt_types go_sprintf sprintf print_args ffmt_unmod.
