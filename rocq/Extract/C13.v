(* Extraction of the C13 model; run by the check driver from the build directory. *)
Require Extraction.
Require Import ExtrOcamlBasic.
From Verif Require Import Lib.Base Model.Streams.
Extraction "model.ml" init_state run run_many.
