(* Extraction of the C19 model (C16's resolver + the enumeration); run by the check driver from the build directory. *)
Require Extraction.
Require Import ExtrOcamlBasic.
From Verif Require Import Lib.Base Model.Resolver Model.Determinism.
Extraction "model.ml"
  resolve_order resolve_cut resolve cutoff seed_oracle front_oracle ordered_funcs call_graph
  func_info compile_check perms order_outcomes one_error lookup_final fnames name_shown func_keys name_order_oracle sorting pass_fuel.
