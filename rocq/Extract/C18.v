(* Extraction of the C18 model; run by the check driver from the build directory. *)
Require Extraction.
Require Import ExtrOcamlBasic.
From Verif Require Import Lib.Base Model.Cover.
Extraction "model.ml" annotate add_file file_line write_profile tagged_prog marks_of.
