(* Extraction of the C01 models; run by the check driver from the build directory. *)
Require Extraction.
Require Import ExtrOcamlBasic.
From Verif Require Import Lib.Base Lib.Dyadic Model.Ast Model.Instr Model.Compiler Model.Encode Model.CancelToy Model.ExecToy.
Extraction "model.ml" of_bits canon comp_program encode_program toy_ast_run toy_vm_run toy_fragment_ok.
