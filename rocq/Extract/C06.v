(* Extraction of the C06 model; run by the check driver from the build directory. *)
Require Extraction.
Require Import ExtrOcamlBasic.
From Verif Require Import Lib.Base Lib.Dyadic Lib.Utf8 Lib.Regex Model.Fields.
Extraction "model.ml"
  of_bits canon representable fin_add
  xinit xexec xline count_value dec_of_Z.
