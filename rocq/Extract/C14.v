(* Extraction of the C14 model; run by the check driver from the build directory. *)
Require Extraction.
Require Import ExtrOcamlBasic.
From Verif Require Import Lib.Base Gen.InterpFields Model.Reuse.
Extraction "model.ml"
  nil_tested model_fields obs_fields run_mutable
  m_newInterp m_resetCore m_resetVars m_resetRand m_prologue m_setExecuteConfig m_prepare
  set_vars_exec predict_diff diff_on val_eqb.
