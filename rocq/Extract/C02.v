(* Extraction of the C02 models; run by the check driver from the build directory. *)
Require Extraction.
Require Import ExtrOcamlBasic.
From Verif Require Import Lib.Base Model.Ast Model.Instr Model.Compiler Model.Encode Model.Verifier Model.Decode.
Extraction "model.ml" decode decode_program enc_raw check_code check_func check_program infer top_ctx ftable_of
  check_limits check_program_limits program_limits set_rs_short csize f_run fs_init.
