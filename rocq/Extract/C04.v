(* Extraction of the C04 model; run by the check driver from the build directory. *)
Require Extraction.
Require Import ExtrOcamlBasic.
From Verif Require Import Lib.Base Model.ExprAst Model.ExprParser.
Extraction "model.ml" parse_top parse_expr strip.
