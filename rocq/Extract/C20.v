(* Extraction of the C20 model; run by the check driver from the build directory. *)
Require Extraction.
Require Import ExtrOcamlBasic.
From Verif Require Import Lib.Base Lib.Dyadic Model.ExprAst Model.ExprParser Model.Printer Proofs.PrinterFitsb.
Extraction "model.ml" of_bits fmt_num program_string pprogram toks render quote format_regex scan_all scan_regex lex_as pe fitsb.
