(* Extraction of the C05 model; run by the check driver from the build directory. *)
Require Extraction.
Require Import ExtrOcamlBasic.
From Verif Require Import Lib.Base Lib.Dyadic Lib.Utf8 Lib.Regex Model.Value Model.Fields Proofs.ValueFields.
Extraction "model.ml"
  of_bits canon
  parse_float parse_float_prefix scan_prefix go_parse_float ascii_trim
  num_to_str v_str v_num v_boolean is_true_str prov_value
  expr_site jump_site spec_cmp cond_direct cond_inverted
  xinit xread xfield xset_field xset_field_self xset_nf xset_fs1.
