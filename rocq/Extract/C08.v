(* Extraction of the C08 model; run by the check driver from the build directory. *)
Require Extraction.
Require Import ExtrOcamlBasic.
From Verif Require Import Lib.Base Lib.Utf8 Model.Csv.
Extraction "model.ml"
  mkCfg read_csv write_record join_fields rfc_records rrec_text
  valid_csv_separator validate_csv_input
  arun msr read_file
  emit_rows mkOut.
