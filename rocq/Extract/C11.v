(* Extraction of the C11 model; run by the check driver from the build directory. *)
Require Extraction.
Require Import ExtrOcamlBasic.
From Verif Require Import Lib.Base Model.Input.
Extraction "model.ml" script_exec script_history range_step.
